(* Lemmas about the container machine (coq/model/Containers.v): the heap model with the repairs (cow = true)
   refines the pure, threshold-free value model, for every capacity oracle that returns at least what is needed. *)
From Coq Require Import List ZArith Bool Arith Lia.
From GrolModel Require Import Containers.
Import ListNotations.

(* ------------------------------------------------------------------ generic list facts *)

Lemma firstn_skipn_comm' : forall {A} (a b : nat) (l : list A),
  skipn a (firstn (a + b) l) = firstn b (skipn a l).
Proof.
  induction a; intros; simpl; auto.
  destruct l; simpl; auto. now rewrite firstn_nil.
Qed.

Lemma skipn_skipn' : forall {A} (a b : nat) (l : list A), skipn a (skipn b l) = skipn (b + a) l.
Proof.
  intros A a b. revert a. induction b; intros; simpl; auto.
  destruct l; simpl; auto. now rewrite skipn_nil.
Qed.

Lemma window_some : forall {A} (l : list A) off len w,
  window l off len = Some w <-> off + len <= length l /\ w = firstn len (skipn off l).
Proof.
  intros. unfold window. destruct (off + len <=? length l) eqn:E.
  - apply Nat.leb_le in E. split; [intros H; inversion H; auto | intros [_ ->]; auto].
  - apply Nat.leb_gt in E. split; [discriminate | intros [H _]; lia].
Qed.

Lemma window_length : forall {A} (l : list A) off len w, window l off len = Some w -> length w = len.
Proof.
  intros. apply window_some in H as [H ->]. rewrite firstn_length, skipn_length. lia.
Qed.

Lemma window_decomp : forall {A} (l : list A) off len w,
  window l off len = Some w ->
  l = firstn off l ++ w ++ skipn (off + len) l /\ length (firstn off l) = off /\ length w = len.
Proof.
  intros. pose proof (window_length _ _ _ _ H) as HL.
  apply window_some in H as [H ->]. repeat split; auto.
  - rewrite <- (firstn_skipn off l) at 1. f_equal.
    rewrite <- (firstn_skipn len (skipn off l)) at 1. f_equal. now rewrite skipn_skipn'.
  - rewrite firstn_length. lia.
Qed.

Lemma window_of_decomp : forall {A} (pre w post : list A) n,
  n = length w -> window (pre ++ w ++ post) (length pre) n = Some w.
Proof.
  intros. subst. apply window_some. split.
  - rewrite !app_length. lia.
  - rewrite skipn_app, skipn_all, Nat.sub_diag. simpl.
    rewrite firstn_app, Nat.sub_diag, firstn_all. simpl. now rewrite app_nil_r.
Qed.

(* splicing inside / at the end of a window *)
Lemma splice_window : forall {A} (l : list A) off len w i new,
  window l off len = Some w -> i <= len ->
  exists l', splice l (off + i) new = Some l' /\
    window l' off (i + length new) = Some (firstn i w ++ new) /\
    (i + length new <= len -> window l' off len = Some (firstn i w ++ new ++ skipn (i + length new) w)) /\
    length l <= length l'.
Proof.
  intros A l off len w i new H Hi.
  destruct (window_decomp _ _ _ _ H) as (Hl & Hpre & Hw).
  set (pre := firstn off l) in *. set (post := skipn (off + len) l) in *.
  assert (Hlen : length l = off + len + length post) by (rewrite Hl at 1; rewrite !app_length; lia).
  unfold splice. replace (off + i <=? length l) with true by (symmetry; apply Nat.leb_le; lia).
  eexists. split; [reflexivity|].
  assert (F : firstn (off + i) l = pre ++ firstn i w).
  { rewrite Hl at 1. rewrite firstn_app, Hpre.
    replace (off + i - off) with i by lia.
    rewrite firstn_app, (firstn_all2 (n := off + i) pre) by lia.
    f_equal. rewrite Hw. replace (i - len) with 0 by lia. simpl. now rewrite app_nil_r. }
  rewrite F.
  assert (Hfi : length (firstn i w) = i) by (rewrite firstn_length; lia).
  rewrite <- app_assoc.
  replace off with (length pre) at 2 4 by auto.
  split; [|split].
  - rewrite app_assoc with (l := firstn i w). rewrite <- (app_nil_r ((firstn i w ++ new) ++ _)).
    rewrite <- app_assoc.
    replace (skipn (off + i + length new) l ++ []) with (skipn (off + i + length new) l) by now rewrite app_nil_r.
    apply window_of_decomp. rewrite app_length. lia.
  - intros Hle.
    assert (S : skipn (off + i + length new) l = skipn (i + length new) w ++ post).
    { rewrite Hl at 1. rewrite skipn_app, Hpre, (skipn_all2 (n := off + i + length new) pre) by lia. simpl.
      replace (off + i + length new - off) with (i + length new) by lia.
      rewrite skipn_app. f_equal. rewrite Hw. replace (i + length new - len) with 0 by lia. reflexivity. }
    rewrite S.
    replace (firstn i w ++ new ++ skipn (i + length new) w ++ post)
      with ((firstn i w ++ new ++ skipn (i + length new) w) ++ post)
      by (now rewrite <- !app_assoc).
    apply window_of_decomp. rewrite !app_length, skipn_length. lia.
  - rewrite !app_length, skipn_length. rewrite Hlen. lia.
Qed.

Lemma set_nth_spec : forall {A} (l : list A) k x,
  k < length l -> set_nth l k x = Some (firstn k l ++ [x] ++ skipn (S k) l).
Proof.
  induction l; intros; simpl in *; [lia|].
  destruct k; simpl; auto. rewrite IHl by lia. reflexivity.
Qed.

Lemma set_nth_none : forall {A} (l : list A) k x, length l <= k -> set_nth l k x = None.
Proof.
  induction l; intros; simpl in *; auto.
  destruct k; [lia|]. rewrite IHl by lia. reflexivity.
Qed.

Lemma set_nth_length : forall {A} (l : list A) k x l', set_nth l k x = Some l' -> length l' = length l.
Proof.
  induction l; intros; simpl in *; [discriminate|].
  destruct k; [inversion H; auto|].
  destruct (set_nth l k x) eqn:E; [|discriminate]. inversion H. simpl. f_equal. eauto.
Qed.

Lemma set_nth_same : forall {A} (l : list A) k x l', set_nth l k x = Some l' -> nth_error l' k = Some x.
Proof.
  induction l; intros; simpl in *; [discriminate|].
  destruct k; [inversion H; auto|].
  destruct (set_nth l k x) eqn:E; [|discriminate]. inversion H. simpl. eauto.
Qed.

Lemma set_nth_other : forall {A} (l : list A) k x l' j, set_nth l k x = Some l' -> j <> k -> nth_error l' j = nth_error l j.
Proof.
  induction l; intros; simpl in *; [discriminate|].
  destruct k.
  - inversion H. destruct j; [congruence|reflexivity].
  - destruct (set_nth l k x) eqn:E; [|discriminate]. inversion H. destruct j; simpl; auto.
    eapply IHl; eauto.
Qed.

Lemma set_nth_some : forall {A} (l : list A) k x, k < length l -> exists l', set_nth l k x = Some l'.
Proof. intros. rewrite set_nth_spec by auto. eauto. Qed.

(* Forall2 transport *)
Section F2.
  Context {A B : Type} (R : A -> B -> Prop).

  Lemma F2_length : forall l pl, Forall2 R l pl -> length l = length pl.
  Proof. induction 1; simpl; auto. Qed.

  Lemma F2_firstn : forall n l pl, Forall2 R l pl -> Forall2 R (firstn n l) (firstn n pl).
  Proof. induction n; intros; simpl; [constructor|]. destruct H; constructor; auto. Qed.

  Lemma F2_skipn : forall n l pl, Forall2 R l pl -> Forall2 R (skipn n l) (skipn n pl).
  Proof. induction n; intros; simpl; auto. destruct H; [constructor|auto]. Qed.

  Lemma F2_app : forall l pl l' pl', Forall2 R l pl -> Forall2 R l' pl' -> Forall2 R (l ++ l') (pl ++ pl').
  Proof. induction 1; simpl; auto. Qed.

  Lemma F2_nth : forall l pl i x, Forall2 R l pl -> nth_error l i = Some x -> exists y, nth_error pl i = Some y /\ R x y.
  Proof.
    intros l pl i x H. revert i. induction H; intros; destruct i; simpl in *; try discriminate.
    - inversion H1; subst. eauto.
    - eauto.
  Qed.

  Lemma F2_nth_none : forall l pl i, Forall2 R l pl -> nth_error l i = None -> nth_error pl i = None.
  Proof.
    intros. apply nth_error_None. apply nth_error_None in H0. rewrite <- (F2_length _ _ H). auto.
  Qed.

  Lemma F2_window : forall l pl off len w, Forall2 R l pl -> window l off len = Some w ->
    exists pw, window pl off len = Some pw /\ Forall2 R w pw.
  Proof.
    intros. apply window_some in H0 as [H0 ->].
    exists (firstn len (skipn off pl)). split.
    - apply window_some. split; auto. rewrite <- (F2_length _ _ H). auto.
    - apply F2_firstn, F2_skipn; auto.
  Qed.

  Lemma F2_window_none : forall l pl off len, Forall2 R l pl -> window l off len = None -> window pl off len = None.
  Proof.
    intros. unfold window in *. rewrite <- (F2_length _ _ H).
    destruct (off + len <=? length l); [discriminate|auto].
  Qed.

  Lemma F2_set_nth : forall l pl k x y l', Forall2 R l pl -> R x y -> set_nth l k x = Some l' ->
    exists pl', set_nth pl k y = Some pl' /\ Forall2 R l' pl'.
  Proof.
    intros l pl k x y l' H. revert k l'. induction H; intros; simpl in *; [discriminate|].
    destruct k.
    - inversion H2; subst. eexists; split; eauto.
    - destruct (set_nth l k x) eqn:E; [|discriminate]. inversion H2; subst.
      destruct (IHForall2 _ _ H1 E) as (pl' & -> & HF). eexists; split; eauto.
  Qed.

  Lemma F2_repeat_list : forall n l pl, Forall2 R l pl -> Forall2 R (repeat_list l n) (repeat_list pl n).
  Proof. induction n; intros; simpl; [constructor|]. apply F2_app; auto. Qed.
End F2.

(* pair lists with equal keys *)
Definition RKV {A B} (R : A -> B -> Prop) (a : Z * A) (b : Z * B) : Prop := fst a = fst b /\ R (snd a) (snd b).

Section KV.
  Context {A B : Type} (R : A -> B -> Prop).

  Lemma kv_find_rel : forall (l : list (Z * A)) (pl : list (Z * B)) k i,
    Forall2 (RKV R) l pl -> kv_find l k i = kv_find pl k i.
  Proof.
    intros l pl k i H. revert i. induction H; intros; simpl; auto.
    destruct x as [k1 v1], y as [k2 v2]. destruct H as [H _]. simpl in H. subst.
    destruct (k2 ?= k)%Z; auto.
  Qed.

  Lemma F2_insert_at : forall l pl i x y, Forall2 (RKV R) l pl -> RKV R x y ->
    Forall2 (RKV R) (insert_at l i x) (insert_at pl i y).
  Proof.
    intros. unfold insert_at. apply F2_app; [apply F2_firstn; auto|]. constructor; auto. apply F2_skipn; auto.
  Qed.

  Lemma F2_remove_at : forall l pl i, Forall2 (RKV R) l pl -> Forall2 (RKV R) (remove_at l i) (remove_at pl i).
  Proof. intros. unfold remove_at. apply F2_app; [apply F2_firstn|apply F2_skipn]; auto. Qed.

  Lemma F2_set_val_at : forall l pl i x y, Forall2 (RKV R) l pl -> R x y ->
    Forall2 (RKV R) (set_val_at l i x) (set_val_at pl i y).
  Proof.
    intros l pl i x y H. revert i. induction H; intros; simpl; [constructor|].
    destruct x0 as [k1 v1], y0 as [k2 v2]. destruct H as [H H']. simpl in *. subst.
    destruct i; constructor; auto; split; auto.
  Qed.

  Lemma F2_kv_set : forall l pl k x y, Forall2 (RKV R) l pl -> R x y ->
    Forall2 (RKV R) (kv_set l k x) (kv_set pl k y).
  Proof.
    intros. unfold kv_set. rewrite (kv_find_rel _ _ k 0 H).
    destruct (kv_find pl k 0) as [[|] i].
    - apply F2_set_val_at; auto.
    - apply F2_insert_at; auto. split; auto.
  Qed.

  Lemma F2_kv_del : forall l pl k, Forall2 (RKV R) l pl ->
    match kv_del l k, kv_del pl k with
    | Some l', Some pl' => Forall2 (RKV R) l' pl'
    | None, None => True
    | _, _ => False
    end.
  Proof.
    intros. unfold kv_del. rewrite (kv_find_rel _ _ k 0 H).
    destruct (kv_find pl k 0) as [[|] i]; auto. apply F2_remove_at; auto.
  Qed.

  Lemma F2_kv_get : forall l pl k, Forall2 (RKV R) l pl ->
    match kv_get l k, kv_get pl k with
    | Some v, Some p => R v p
    | None, None => True
    | _, _ => False
    end.
  Proof.
    intros. unfold kv_get. rewrite (kv_find_rel _ _ k 0 H).
    destruct (kv_find pl k 0) as [[|] i]; auto.
    destruct (nth_error l i) eqn:E.
    - destruct (F2_nth _ _ _ _ _ H E) as (y & -> & HR). simpl. apply HR.
    - rewrite (F2_nth_none _ _ _ _ H E). simpl. auto.
  Qed.

  Lemma F2_fold_kv_set : forall r pr l pl, Forall2 (RKV R) r pr -> Forall2 (RKV R) l pl ->
    Forall2 (RKV R) (fold_left (fun m kv => kv_set m (fst kv) (snd kv)) r l)
                    (fold_left (fun m kv => kv_set m (fst kv) (snd kv)) pr pl).
  Proof.
    intros r pr l pl H. revert l pl. induction H; intros; simpl; auto.
    apply IHForall2. destruct H as [H H']. rewrite H. apply F2_kv_set; auto.
  Qed.
End KV.

(* kv_find: position facts *)
Lemma kv_find_bounds : forall {A} (l : list (Z * A)) k j b i,
  kv_find l k j = (b, i) -> j <= i <= j + length l /\ (b = true -> i < j + length l).
Proof.
  induction l; intros; simpl in *.
  - inversion H; subst. split; [lia|discriminate].
  - destruct a as [k' v']. destruct (k' ?= k)%Z.
    + inversion H; subst. split; lia.
    + apply IHl in H. destruct H. split; [lia|intros; specialize (H0 H1); lia].
    + inversion H; subst. split; [lia|discriminate].
Qed.

Lemma kv_find_found : forall {A} (l : list (Z * A)) k j i,
  kv_find l k j = (true, i) -> exists v, nth_error l (i - j) = Some (k, v).
Proof.
  induction l; intros; simpl in *; [discriminate|].
  destruct a as [k' v']. destruct (k' ?= k)%Z eqn:E.
  - inversion H; subst. apply Z.compare_eq in E. subst. rewrite Nat.sub_diag. simpl. eauto.
  - pose proof (kv_find_bounds _ _ _ _ _ H) as [Hb _].
    apply IHl in H. destruct H as [v Hv]. replace (i - j) with (S (i - S j)) by lia. simpl. eauto.
  - discriminate.
Qed.

Lemma set_val_at_splice : forall {A} (l : list (Z * A)) i k v0 v,
  nth_error l i = Some (k, v0) -> set_val_at l i v = firstn i l ++ [(k, v)] ++ skipn (S i) l.
Proof.
  induction l; intros; destruct i; simpl in *; try discriminate.
  - inversion H; subst. reflexivity.
  - destruct a. f_equal. eauto.
Qed.

(* ------------------------------------------------------------------ heap facts *)

Definition keeps (n : nat) (h h' : heap) : Prop :=
  length h <= length h' /\ forall id, id < n -> nth_error h' id = nth_error h id.

Lemma keeps_refl : forall n h, keeps n h h.
Proof. split; auto. Qed.

Lemma keeps_trans : forall n h1 h2 h3, keeps n h1 h2 -> keeps n h2 h3 -> keeps n h1 h3.
Proof. intros n h1 h2 h3 [L1 K1] [L2 K2]. split; [lia|]. intros. rewrite K2, K1; auto. Qed.

Lemma keeps_le : forall n m h h', keeps n h h' -> m <= n -> keeps m h h'.
Proof. intros n m h h' [L K] Hm. split; auto. intros. apply K. lia. Qed.

Lemma keeps_alloc : forall n h c, n <= length h -> keeps n h (fst (alloc h c)).
Proof.
  intros. unfold alloc. simpl. split; [rewrite app_length; lia|].
  intros. rewrite nth_error_app1; auto. lia.
Qed.

Lemma alloc_new : forall h c, nth_error (fst (alloc h c)) (length h) = Some c.
Proof. intros. unfold alloc. simpl. rewrite nth_error_app2, Nat.sub_diag; auto. Qed.

Lemma alloc_old : forall h c id, id < length h -> nth_error (fst (alloc h c)) id = nth_error h id.
Proof. intros. unfold alloc. simpl. apply nth_error_app1. auto. Qed.

Lemma alloc_length : forall h c, length (fst (alloc h c)) = S (length h).
Proof. intros. unfold alloc. simpl. rewrite app_length. simpl. lia. Qed.

Lemma keeps_set : forall n h id c h', set_nth h id c = Some h' -> n <= id -> keeps n h h'.
Proof.
  intros. split.
  - rewrite (set_nth_length _ _ _ _ H). auto.
  - intros. eapply set_nth_other; eauto. lia.
Qed.

Lemma read_arr_keeps : forall n h h' s, keeps n h h' -> sid s < n -> read_arr h' s = read_arr h s.
Proof. intros n h h' s [_ K] Hs. unfold read_arr. rewrite K; auto. Qed.
Lemma read_kv_keeps : forall n h h' s, keeps n h h' -> sid s < n -> read_kv h' s = read_kv h s.
Proof. intros n h h' s [_ K] Hs. unfold read_kv. rewrite K; auto. Qed.
Lemma map_hdr_keeps : forall n h h' p, keeps n h h' -> p < n -> map_hdr h' p = map_hdr h p.
Proof. intros n h h' p [_ K] Hs. unfold map_hdr. rewrite K; auto. Qed.

Lemma read_arr_lt : forall h s l, read_arr h s = Some l -> sid s < length h.
Proof.
  unfold read_arr. intros. destruct (nth_error h (sid s)) eqn:E; [|discriminate].
  apply nth_error_Some. congruence.
Qed.
Lemma read_kv_lt : forall h s l, read_kv h s = Some l -> sid s < length h.
Proof.
  unfold read_kv. intros. destruct (nth_error h (sid s)) eqn:E; [|discriminate].
  apply nth_error_Some. congruence.
Qed.
Lemma map_hdr_lt : forall h p s, map_hdr h p = Some s -> p < length h.
Proof.
  unfold map_hdr. intros. destruct (nth_error h p) eqn:E; [|discriminate].
  apply nth_error_Some. congruence.
Qed.

(* ------------------------------------------------------------------ abstraction relation *)

Section ABS.
  (* ok: what is known of every large-array header reachable from a value (the machine invariant instantiates it
     with "longer than MaxSmallArray"; the reader uses no assumption) *)
  Variable ok : slice -> Prop.

  Inductive Abs (h : heap) : val -> pval -> Prop :=
  | Abs_int : forall z, Abs h (VInt z) (PInt z)
  | Abs_nil : Abs h VNil PNil
  | Abs_arrS : forall l pl, AbsL h l pl -> Abs h (VArrS l) (PArr pl)
  | Abs_arrB : forall s l pl, ok s -> read_arr h s = Some l -> AbsL h l pl -> Abs h (VArrB s) (PArr pl)
  | Abs_mapS : forall l pl, AbsM h l pl -> Abs h (VMapS l) (PMap pl)
  | Abs_mapB : forall p s l pl, map_hdr h p = Some s -> read_kv h s = Some l -> AbsM h l pl -> Abs h (VMapB p) (PMap pl)
  with AbsL (h : heap) : list val -> list pval -> Prop :=
  | AbsL_nil : AbsL h [] []
  | AbsL_cons : forall v p l pl, Abs h v p -> AbsL h l pl -> AbsL h (v :: l) (p :: pl)
  with AbsM (h : heap) : list (Z * val) -> list (Z * pval) -> Prop :=
  | AbsM_nil : AbsM h [] []
  | AbsM_cons : forall k v p l pl, Abs h v p -> AbsM h l pl -> AbsM h ((k, v) :: l) ((k, p) :: pl).

  Scheme Abs_ind' := Minimality for Abs Sort Prop
    with AbsL_ind' := Minimality for AbsL Sort Prop
    with AbsM_ind' := Minimality for AbsM Sort Prop.
  Combined Scheme Abs_mutind from Abs_ind', AbsL_ind', AbsM_ind'.

  Lemma AbsL_F2 : forall h l pl, AbsL h l pl <-> Forall2 (Abs h) l pl.
  Proof.
    split; induction 1; constructor; auto.
  Qed.

  Lemma AbsM_F2 : forall h l pl, AbsM h l pl <-> Forall2 (RKV (Abs h)) l pl.
  Proof.
    split.
    - induction 1; constructor; auto. split; auto.
    - induction 1; [constructor|]. destruct x, y. destruct H as [H1 H2]. simpl in *. subst. constructor; auto.
  Qed.

  Lemma Abs_keeps_all :
    (forall h v p, Abs h v p -> forall h', keeps (length h) h h' -> Abs h' v p) /\
    (forall h l pl, AbsL h l pl -> forall h', keeps (length h) h h' -> AbsL h' l pl) /\
    (forall h l pl, AbsM h l pl -> forall h', keeps (length h) h h' -> AbsM h' l pl).
  Proof.
    assert (X : forall h,
      (forall v p, Abs h v p -> forall h', keeps (length h) h h' -> Abs h' v p) /\
      (forall l pl, AbsL h l pl -> forall h', keeps (length h) h h' -> AbsL h' l pl) /\
      (forall l pl, AbsM h l pl -> forall h', keeps (length h) h h' -> AbsM h' l pl)).
    { intro h. apply Abs_mutind; intros; try (constructor; auto; fail).
      - econstructor; eauto.
        match goal with K : keeps _ _ _ |- _ => rewrite (read_arr_keeps _ _ _ _ K); auto end. eapply read_arr_lt; eauto.
      - match goal with K : keeps _ _ _ |- _ => econstructor; eauto;
          [rewrite (map_hdr_keeps _ _ _ _ K); eauto; eapply map_hdr_lt; eauto
          |rewrite (read_kv_keeps _ _ _ _ K); eauto; eapply read_kv_lt; eauto] end. }
    repeat split; intros h; destruct (X h) as (X1 & X2 & X3); eauto.
  Qed.

  Lemma Abs_keeps : forall h v p h', Abs h v p -> keeps (length h) h h' -> Abs h' v p.
  Proof. intros. eapply (proj1 Abs_keeps_all); eauto. Qed.

  Lemma Abs_fun_all : forall h,
    (forall v p, Abs h v p -> forall p', Abs h v p' -> p = p') /\
    (forall l pl, AbsL h l pl -> forall pl', AbsL h l pl' -> pl = pl') /\
    (forall l pl, AbsM h l pl -> forall pl', AbsM h l pl' -> pl = pl').
  Proof.
    intro h.
    assert (same : forall {X} (a : option X) x y, a = Some x -> a = Some y -> x = y) by (intros; congruence).
    apply Abs_mutind.
    - intros z p' H; inversion H; auto.
    - intros p' H; inversion H; auto.
    - intros l pl HL IH p' H; inversion H; subst; f_equal; auto.
    - intros s l pl Hok Hr HL IH p' H; inversion H; subst.
      match goal with H2 : read_arr h s = Some ?b |- _ => tryif constr_eq b l then fail else (pose proof (same _ _ _ _ Hr H2); subst) end. f_equal; auto.
    - intros l pl HL IH p' H; inversion H; subst; f_equal; auto.
    - intros p s l pl Hh Hr HL IH p' H; inversion H; subst.
      match goal with H2 : map_hdr h p = Some ?b |- _ => tryif constr_eq b s then fail else (pose proof (same _ _ _ _ Hh H2); subst) end.
      match goal with H1 : read_kv h ?x = Some ?a, H2 : read_kv h ?x = Some ?b |- _ =>
        tryif constr_eq a b then fail else (pose proof (same _ _ _ _ H1 H2); subst) end. f_equal; auto.
    - intros pl' H; inversion H; auto.
    - intros v p l pl HA IHA HL IHL pl' H; inversion H; subst. f_equal; auto.
    - intros pl' H; inversion H; auto.
    - intros k v p l pl HA IHA HL IHL pl' H; inversion H; subst. f_equal; auto. f_equal; auto.
  Qed.

  Lemma Abs_fun : forall h v p p', Abs h v p -> Abs h v p' -> p = p'.
  Proof. intros. eapply (proj1 (Abs_fun_all h)); eauto. Qed.
End ABS.

Lemma Abs_weaken_all : forall (ok ok' : slice -> Prop), (forall s, ok s -> ok' s) -> forall h,
  (forall v p, Abs ok h v p -> Abs ok' h v p) /\
  (forall l pl, AbsL ok h l pl -> AbsL ok' h l pl) /\
  (forall l pl, AbsM ok h l pl -> AbsM ok' h l pl).
Proof.
  intros ok ok' Hok h. apply Abs_mutind; intros; try (econstructor; eauto; fail).
Qed.

(* the executable reader is sound for the relation (no assumption on headers) *)
Lemma read_sound : forall fuel h v p, read fuel h v = Some p -> Abs (fun _ => True) h v p.
Proof.
  induction fuel; intros h v p H; simpl in H; [discriminate|].
  set (rl := fix rl (l : list val) : option (list pval) :=
      match l with
      | [] => Some []
      | x :: t => match read fuel h x, rl t with Some p, Some ps => Some (p :: ps) | _, _ => None end
      end) in *.
  set (rm := fix rm (l : list (Z * val)) : option (list (Z * pval)) :=
      match l with
      | [] => Some []
      | (k, x) :: t => match read fuel h x, rm t with Some p, Some ps => Some ((k, p) :: ps) | _, _ => None end
      end) in *.
  assert (RL : forall l pl, rl l = Some pl -> AbsL (fun _ => True) h l pl).
  { induction l; intros pl E; simpl in E.
    - inversion E. constructor.
    - destruct (read fuel h a) eqn:E1; [|discriminate]. destruct (rl l) eqn:E2; [|discriminate].
      inversion E; subst. constructor; auto. }
  assert (RM : forall l pl, rm l = Some pl -> AbsM (fun _ => True) h l pl).
  { induction l; intros pl E; simpl in E.
    - inversion E. constructor.
    - destruct a as [k x]. destruct (read fuel h x) eqn:E1; [|discriminate]. destruct (rm l) eqn:E2; [|discriminate].
      inversion E; subst. constructor; auto. }
  destruct v.
  - inversion H. constructor.
  - inversion H. constructor.
  - destruct (rl l) eqn:E; inversion H. constructor; auto.
  - destruct (read_arr h s) eqn:E0; [|discriminate]. destruct (rl l) eqn:E; inversion H.
    econstructor; eauto.
  - destruct (rm l) eqn:E; inversion H. constructor; auto.
  - destruct (map_hdr h p0) eqn:E0; [|discriminate]. destruct (read_kv h s) eqn:E1; [|discriminate].
    destruct (rm l) eqn:E; inversion H. econstructor; eauto.
Qed.
