(* Memo_inv.v - a cache invariant over whole histories (C04): what the cache holds, and therefore what a hit can
   ever serve, is never an error, never is or contains a function, and is keyed by at most MaxArgs hashable
   arguments - at every input boundary and for every hit at every depth of every evaluation. *)
From Coq Require Import List ZArith NArith Bool Arith Lia.
From GrolGen Require Import Gen_Consts.
From GrolModel Require Import Memo.
From GrolProofs Require Import Memo_proofs.
Import ListNotations.

Definition entry_clean (ce : centry) : Prop :=
  is_err (ce_res ce) = false /\ has_function (ce_res ce) = false /\
  (Z.of_nat (length (ce_args ce)) <= eval_MaxArgs)%Z /\ forallb hashable (ce_args ce) = true.
Definition cache_clean (c : list centry) : Prop := Forall entry_clean c.

(* the entries written by the DStored nodes of a trace that satisfies the node invariant are clean *)
Lemma ev_stores_clean : forall e, node_all node_ok e -> Forall entry_clean (ev_stores e).
Proof.
  induction e using event_ind'; intros HN; try (simpl; constructor).
  rewrite ev_stores_call. apply node_all_call in HN. destruct HN as [[HS _] HI].
  apply Forall_app. split.
  - destruct d; try constructor; [|constructor].
    destruct (HS eq_refl) as [_ [E [F [L A]]]]. unfold entry_clean. simpl. auto.
  - unfold stores_of. unfold trace_all in HI. rewrite Forall_forall in *. intros ce Hce.
    apply in_flat_map in Hce. destruct Hce as [x [Hx Hc]].
    specialize (H x Hx (HI x Hx)). rewrite Forall_forall in H. auto.
Qed.
Lemma stores_clean : forall tr, trace_all node_ok tr -> Forall entry_clean (stores_of tr).
Proof.
  intros tr HT. unfold stores_of. rewrite Forall_forall. intros ce Hce.
  apply in_flat_map in Hce. destruct Hce as [x [Hx Hc]]. unfold trace_all in HT. rewrite Forall_forall in HT.
  pose proof (ev_stores_clean x (HT x Hx)) as HC. rewrite Forall_forall in HC. auto.
Qed.

(* one evaluation keeps the cache clean *)
Theorem eval_clean : forall fuel on defs st fr e r st',
  eval fuel on defs st fr e = (r, st') -> cache_clean (st_cache st) -> cache_clean (st_cache st').
Proof.
  intros fuel on defs st fr e r st' H HC. unfold cache_clean in *. rewrite Forall_forall in *. intros ce Hce.
  destruct (eval_logged _ _ _ _ _ _ _ _ H ce Hce) as [A|A]; auto.
  pose proof (eval_good _ _ _ _ _ _ _ _ H) as [_ G].
  pose proof (stores_clean _ G) as S. rewrite Forall_forall in S. auto.
Qed.

Theorem run_clean : forall on fuel defs inputs st,
  cache_clean (st_cache st) -> Forall (fun p => cache_clean (st_cache (snd p))) (run on fuel defs st inputs).
Proof.
  intros on fuel defs. induction inputs as [|e rest IH]; simpl; intros st HC; [constructor|].
  destruct (eval fuel on defs st 0 e) as [r st'] eqn:E.
  pose proof (eval_clean _ _ _ _ _ _ _ _ E HC) as HC'. constructor; simpl; auto.
Qed.

Lemma init_clean : cache_clean (st_cache init_state).
Proof. constructor. Qed.

(* a lookup in a clean cache never finds an error or a function *)
Lemma cache_get_clean : forall c key args v o,
  cache_clean c -> cache_get c key args = Some (v, o) -> is_err v = false /\ has_function v = false.
Proof.
  intros c key args v o HC HG. unfold cache_get in HG. destruct (key_ok args); try discriminate.
  destruct (find (ce_match key (map fst args)) c) as [ce|] eqn:F; try discriminate.
  inversion HG; subst. apply find_some in F. destruct F as [Hin _].
  unfold cache_clean in HC. rewrite Forall_forall in HC. destruct (HC _ Hin) as [A [B _]]. auto.
Qed.

(* ---------------------------------------------------------------- every hit, at every depth, serves a clean value *)
Definition hit_node : node_prop := fun k args inner before after res out d =>
  d = DHit -> is_err res = false /\ has_function res = false.

Lemma get_events : forall defs h fr x v isref h' dm evs,
  get defs h fr x = GFound v isref h' dm evs -> evs = [] \/ exists y c, evs = [EvAccess y c].
Proof.
  unfold get. intros defs h fr x v isref h' dm evs.
  destruct (bytes_eqb x info_name); try discriminate.
  destruct (nth_error h fr) as [f|]; try discriminate.
  destruct (bytes_eqb x self_name).
  { destruct (fr_fn f) as [[d e]|]; try discriminate. intros H; inversion H; subst. auto. }
  destruct (own_name defs f x).
  { destruct (fr_fn f) as [[d e]|]; try discriminate. intros H; inversion H; subst. auto. }
  destruct (find_cell (fr_store f) x) as [[v0|x' e']|].
  - intros H; inversion H; subst. auto.
  - destruct (deref h x' e'); try discriminate. intros H; inversion H; subst. right. eauto.
  - destruct (fr_outer f); try discriminate.
    destruct (walk (length h) h fr x) as [x' e'| |]; try discriminate.
    destruct (deref h x' e'); try discriminate. intros H; inversion H; subst. right. eauto.
Qed.
Lemma get_hit_free : forall (P : node_prop) defs h fr x v isref h' dm evs,
  get defs h fr x = GFound v isref h' dm evs -> trace_all P evs.
Proof.
  intros P defs h fr x v isref h' dm evs G. destruct (get_events _ _ _ _ _ _ _ _ _ G) as [->|[y [c ->]]];
    repeat constructor.
Qed.

Lemma set_nochecks_hit_free : forall (P : node_prop) st fr x v r st', set_nochecks st fr x v = (r, st') -> trace_all P (r_tr r).
Proof.
  unfold set_nochecks. intros P st fr x v r st'.
  destruct (nth_error (st_heap st) fr) as [f|]; [|intros H; inversion H; constructor].
  destruct (find_cell (fr_store f) x) as [[v0|x' e']|]; try (intros H; inversion H; repeat constructor; fail).
  destruct (fr_outer f); [|intros H; inversion H; constructor].
  destruct (walk (length (st_heap st)) (st_heap st) fr x); intros H; inversion H; repeat constructor.
Qed.
Lemma assign_hit_free : forall (P : node_prop) defs st fr x v r st', assign defs st fr x v = (r, st') -> trace_all P (r_tr r).
Proof.
  unfold assign. intros P defs st fr x v r st'.
  destruct (constant_name x); [|apply set_nochecks_hit_free].
  destruct (get defs (st_heap st) fr x) as [old isref h' dm evs| |] eqn:G.
  - pose proof (get_hit_free P _ _ _ _ _ _ _ _ _ G) as GE.
    destruct (isref || negb (value_goeq old v)); [intros H; inversion H; subst; simpl; auto|].
    destruct (set_nochecks (set_heap st h') fr x v) as [r2 st2] eqn:S. intros H; inversion H; subst. simpl.
    apply trace_all_app; auto. eapply set_nochecks_hit_free; eauto.
  - apply set_nochecks_hit_free.
  - intros H; inversion H; constructor.
Qed.
Lemma bind_err_hit_free : forall (P : node_prop) defs ps vs st n b0 tr0 b1 tr1 st1,
  bind_params defs st n ps vs b0 tr0 = BErr b1 tr1 st1 -> trace_all P tr0 -> trace_all P tr1.
Proof.
  intros P defs. induction ps as [|p ps IH]; simpl; intros vs st n b0 tr0 b1 tr1 st1 HH HT; try discriminate.
  destruct vs as [|v vs]; try discriminate.
  destruct (constant_name p); [|eapply IH; eauto].
  destruct (get defs (st_heap st) n p) as [old isref h' dm evs| |] eqn:G; try discriminate.
  - pose proof (get_hit_free P _ _ _ _ _ _ _ _ _ G) as GE.
    destruct (isref || negb (value_goeq old v)).
    + inversion HH; subst. apply trace_all_app; auto.
    + eapply IH; eauto. apply trace_all_app; auto.
  - eapply IH; eauto.
Qed.

Definition hits_ok (r : res) : Prop := trace_all hit_node (r_tr r).
Lemma hits_then : forall r1 r2, hits_ok r1 -> hits_ok r2 -> hits_ok (then_res r1 r2).
Proof. intros. unfold hits_ok in *. simpl. apply trace_all_app; auto. Qed.
Lemma hits_with_oc : forall r o b, hits_ok r -> hits_ok (with_oc r o b).
Proof. intros. unfold hits_ok in *. simpl. auto. Qed.
Lemma hits_nil : forall o b out lg m, hits_ok (mkRes o b out lg [] m).
Proof. intros. unfold hits_ok. simpl. constructor. Qed.
#[export] Hint Resolve hits_then hits_with_oc hits_nil : memohit.

Section HitsEv.
  Variable ev : state -> nat -> expr -> res * state.
  Variable on : bool.
  Variable defs : list fdef.
  Hypothesis Hev : forall st fr e r st', ev st fr e = (r, st') -> cache_clean (st_cache st) -> hits_ok r.
  Hypothesis Hcl : forall st fr e r st', ev st fr e = (r, st') -> cache_clean (st_cache st) -> cache_clean (st_cache st').

  Lemma eval_list_hits : forall es st fr r vals st',
    eval_list ev st fr es = (r, vals, st') -> cache_clean (st_cache st) -> hits_ok r /\ cache_clean (st_cache st').
  Proof.
    induction es as [|e es IH]; simpl; intros st fr r vals st' H HC.
    - inversion H; subst. split; auto with memohit. apply hits_nil.
    - destruct (ev st fr e) as [r1 st1] eqn:E1.
      pose proof (Hev _ _ _ _ _ E1 HC) as G1. pose proof (Hcl _ _ _ _ _ E1 HC) as C1.
      destruct (r_oc r1) as [v| |]; try (inversion H; subst; auto; fail).
      destruct (is_err v); [inversion H; subst; auto|].
      destruct (eval_list ev st1 fr es) as [[r2 vs] st2] eqn:E2.
      destruct (IH _ _ _ _ _ E2 C1) as [G2 C2]. inversion H; subst. split; auto with memohit.
  Qed.

  Lemma apply_fn_hits : forall st fr fv args r st',
    apply_fn ev on defs st fr fv args = (r, st') -> cache_clean (st_cache st) -> hits_ok r.
  Proof.
    unfold apply_fn. intros st fr fv args r st' H HC.
    destruct fv; try (inversion H; subst; apply hits_nil; fail).
    destruct (nth_error defs d) as [fd|]; [|inversion H; apply hits_nil].
    destruct (if on then cache_get (st_cache st) (fd_key fd) args else None) as [[v o]|] eqn:CG.
    { destruct on; try discriminate. inversion H; subst. unfold hits_ok. simpl.
      constructor; [|constructor]. apply node_all_call. split; [|constructor].
      intros _. eapply cache_get_clean; eauto. }
    destruct (nth_error (st_heap st) fr) as [cur|]; [|inversion H; apply hits_nil].
    destruct (nth_error (st_heap st) (if same_fn cur d env then fr else env)) as [pf|]; [|inversion H; apply hits_nil].
    destruct (call_shape (fd_params fd) args) as [[[[cps cpv] dots] sargs]|].
    2:{ inversion H; subst. unfold hits_ok. simpl. constructor; [|constructor]. apply node_all_call.
        split; [intros Q; discriminate | constructor]. }
    match type of H with context [bind_params ?a ?b ?c ?d ?e ?f ?g] =>
      pose proof (bind_params_cache a d e b c f g) as BC0; destruct (bind_params a b c d e f g) as [before tr st2a|before tr st2|] eqn:B end.
    - simpl in BC0. apply bind_params_ok in B. destruct B as [-> ->].
      match type of H with context [ev ?s2 ?n2 (fd_body fd)] =>
        assert (BC : st_cache s2 = st_cache st) by (destruct dots; simpl; auto);
        destruct (ev s2 n2 (fd_body fd)) as [rb st3] eqn:EB end.
      assert (HB : hits_ok rb) by (eapply Hev; eauto; rewrite BC; auto).
      assert (NODE : forall dd v0 lg ms, dd <> DHit ->
                hits_ok (mkRes (OVal v0) false (r_out rb) lg [EvCall (fd_key fd) (map fst args) ([] ++ r_tr rb) 0 (0 + r_miss rb) v0 (r_out rb) dd] ms)).
      { intros dd v0 lg ms ND. unfold hits_ok. simpl. constructor; [|constructor]. apply node_all_call.
        split; [intros Q; congruence | exact HB]. }
      destruct (r_oc rb) as [v| |]; try (inversion H; subst; auto; fail).
      destruct (negb (0 + r_miss rb =? 0)); [inversion H; subst; apply NODE; discriminate|].
      destruct (is_err v); [inversion H; subst; apply NODE; discriminate|].
      destruct (has_function v); [inversion H; subst; apply NODE; discriminate|].
      destruct (negb (key_ok sargs)); [inversion H; subst; apply NODE; discriminate|].
      destruct on; inversion H; subst; apply NODE; discriminate.
    - inversion H; subst. unfold hits_ok. simpl. constructor; [|constructor]. apply node_all_call.
      split; [intros Q; discriminate|]. eapply bind_err_hit_free; eauto. constructor.
    - inversion H; apply hits_nil.
  Qed.
End HitsEv.

Theorem eval_hits : forall fuel on defs st fr e r st',
  eval fuel on defs st fr e = (r, st') -> cache_clean (st_cache st) -> hits_ok r.
Proof.
  induction fuel as [|f IH]; intros on defs st fr e r st' H HC.
  { simpl in H. inversion H. apply hits_nil. }
  assert (Hev : forall st fr e r st', eval f on defs st fr e = (r, st') -> cache_clean (st_cache st) -> hits_ok r) by (intros; eapply IH; eauto).
  assert (Hcl : forall st fr e r st', eval f on defs st fr e = (r, st') -> cache_clean (st_cache st) -> cache_clean (st_cache st'))
    by (intros; eapply eval_clean; eauto).
  simpl in H. destruct e.
  - inversion H; apply hits_nil.
  - destruct (get defs (st_heap st) fr x) eqn:G; inversion H; subst; try apply hits_nil.
    + unfold hits_ok. simpl. eapply get_hit_free; eauto.
    + unfold hits_ok. simpl. repeat constructor.
  - destruct (eval f on defs st fr e) as [r1 st1] eqn:E1. pose proof (Hev _ _ _ _ _ E1 HC).
    destruct (r_oc r1) as [v| |]; try (inversion H; subst; auto; fail).
    destruct (is_err v); [inversion H; subst; auto with memohit|].
    destruct (assign defs st1 fr x v) as [r2 st2] eqn:A. inversion H; subst.
    apply hits_then; auto. unfold hits_ok. eapply assign_hit_free; eauto.
  - destruct (nth_error defs d) as [fd|]; [|inversion H; apply hits_nil].
    destruct (fd_name fd); [|inversion H; apply hits_nil].
    destruct (assign defs st fr i (VFun d fr)) as [r1 st1] eqn:A.
    assert (hits_ok r1) by (unfold hits_ok; eapply assign_hit_free; eauto).
    destruct (r_oc r1) as [v| |]; try (inversion H; subst; auto; fail).
    destruct (is_err v); inversion H; subst; auto with memohit.
  - destruct (eval f on defs st fr e) as [rf st1] eqn:E1. pose proof (Hev _ _ _ _ _ E1 HC). pose proof (Hcl _ _ _ _ _ E1 HC) as C1.
    destruct (r_oc rf) as [fv| |]; try (inversion H; subst; auto; fail).
    destruct (is_err fv); [inversion H; subst; auto with memohit|].
    destruct (eval_list (eval f on defs) st1 fr args) as [[ra vals] st2] eqn:E2.
    destruct (eval_list_hits _ Hev Hcl _ _ _ _ _ _ E2 C1) as [GA C2].
    destruct (r_oc ra) as [av| |]; try (inversion H; subst; auto with memohit; fail).
    destruct (is_err av); [inversion H; subst; auto with memohit|].
    destruct (apply_fn (eval f on defs) on defs st2 fr fv vals) as [rc st3] eqn:E3.
    pose proof (apply_fn_hits _ on defs Hev _ _ _ _ _ _ E3 C2).
    inversion H; subst; auto with memohit.
  - destruct (eval_list (eval f on defs) st fr es) as [[ra vals] st1] eqn:E2.
    destruct (eval_list_hits _ Hev Hcl _ _ _ _ _ _ E2 HC) as [GA C2].
    destruct (r_oc ra) as [av| |]; try (inversion H; subst; auto; fail).
    destruct (is_err av); inversion H; subst; auto with memohit.
  - destruct (eval f on defs st fr e1) as [r1 st1] eqn:E1. pose proof (Hev _ _ _ _ _ E1 HC). pose proof (Hcl _ _ _ _ _ E1 HC) as C1.
    destruct (r_oc r1) as [v1| |]; try (inversion H; subst; auto; fail).
    destruct (is_err v1); [inversion H; subst; auto with memohit|].
    destruct (eval f on defs st1 fr e2) as [r2 st2] eqn:E2. pose proof (Hev _ _ _ _ _ E2 C1).
    destruct (r_oc r2) as [v2| |]; try (inversion H; subst; auto with memohit; fail).
    destruct (is_err v2); inversion H; subst; auto with memohit.
  - destruct (eval f on defs st fr e1) as [rc st1] eqn:E1. pose proof (Hev _ _ _ _ _ E1 HC). pose proof (Hcl _ _ _ _ _ E1 HC) as C1.
    destruct (r_oc rc) as [vc| |]; try (inversion H; subst; auto; fail).
    destruct vc; try (inversion H; subst; auto with memohit; fail).
    destruct (eval f on defs st1 fr (if b then e2 else e3)) as [rb st2] eqn:E2. pose proof (Hev _ _ _ _ _ E2 C1).
    inversion H; subst; auto with memohit.
  - destruct (eval f on defs st fr e1) as [r1 st1] eqn:E1. pose proof (Hev _ _ _ _ _ E1 HC). pose proof (Hcl _ _ _ _ _ E1 HC) as C1.
    destruct (r_oc r1) as [v1| |]; try (inversion H; subst; auto; fail).
    destruct (is_err v1); [inversion H; subst; auto|].
    destruct (eval f on defs st1 fr e2) as [r2 st2] eqn:E2. pose proof (Hev _ _ _ _ _ E2 C1).
    inversion H; subst; auto with memohit.
  - destruct (eval_list (eval f on defs) st fr es) as [[ra vals] st1] eqn:E2.
    destruct (eval_list_hits _ Hev Hcl _ _ _ _ _ _ E2 HC) as [GA C2].
    destruct (r_oc ra) as [av| |]; try (inversion H; subst; auto; fail).
    destruct (is_err av); [inversion H; subst; auto with memohit|].
    destruct (all_some _); inversion H; subst; auto with memohit; apply hits_then; auto; apply hits_nil.
  - inversion H; apply hits_nil.
  - inversion H; apply hits_nil.
  - inversion H; subst. unfold hits_ok. simpl. repeat constructor.
  - destruct (del_walk _ _ _ _); inversion H; subst; unfold hits_ok; simpl; repeat constructor.
  - destruct (eval f on defs st fr e) as [r1 st1] eqn:E1. pose proof (Hev _ _ _ _ _ E1 HC).
    destruct (r_oc r1) as [v| |]; inversion H; subst; auto with memohit.
Qed.

Theorem run_hits : forall on fuel defs inputs st, cache_clean (st_cache st) ->
  Forall (fun p => trace_all hit_node (r_tr (fst p))) (run on fuel defs st inputs).
Proof.
  intros on fuel defs. induction inputs as [|e rest IH]; simpl; intros st HC; [constructor|].
  destruct (eval fuel on defs st 0 e) as [r st'] eqn:E.
  constructor; simpl.
  - eapply eval_hits; eauto.
  - apply IH. eapply eval_clean; eauto.
Qed.

(* ---------------------------------------------------------------- the cache-off run is inert: the reference semantics *)
(* with the switch off (eval.VerifCacheOff) no call is ever a hit or a store, and the cache stays empty *)
Definition off_node : node_prop := fun k args inner before after res out d => d <> DHit /\ d <> DStored.
Definition offs_ok (r : res) : Prop := trace_all off_node (r_tr r).
Lemma offs_then : forall r1 r2, offs_ok r1 -> offs_ok r2 -> offs_ok (then_res r1 r2).
Proof. intros. unfold offs_ok in *. simpl. apply trace_all_app; auto. Qed.
Lemma offs_with_oc : forall r o b, offs_ok r -> offs_ok (with_oc r o b).
Proof. intros. unfold offs_ok in *. simpl. auto. Qed.
Lemma offs_nil : forall o b out lg m, offs_ok (mkRes o b out lg [] m).
Proof. intros. unfold offs_ok. simpl. constructor. Qed.
#[export] Hint Resolve offs_then offs_with_oc offs_nil : memooff.

Section OffEv.
  Variable ev : state -> nat -> expr -> res * state.
  Variable defs : list fdef.
  Hypothesis Hev : forall st fr e r st', ev st fr e = (r, st') -> offs_ok r.

  Lemma eval_list_off : forall es st fr r vals st', eval_list ev st fr es = (r, vals, st') -> offs_ok r.
  Proof.
    induction es as [|e es IH]; simpl; intros st fr r vals st' H.
    - inversion H; subst. apply offs_nil.
    - destruct (ev st fr e) as [r1 st1] eqn:E1. pose proof (Hev _ _ _ _ _ E1) as G1.
      destruct (r_oc r1) as [v| |]; try (inversion H; subst; auto; fail).
      destruct (is_err v); [inversion H; subst; auto|].
      destruct (eval_list ev st1 fr es) as [[r2 vs] st2] eqn:E2.
      pose proof (IH _ _ _ _ _ E2). inversion H; subst. auto with memooff.
  Qed.

  Lemma apply_fn_off : forall st fr fv args r st', apply_fn ev false defs st fr fv args = (r, st') -> offs_ok r.
  Proof.
    unfold apply_fn. intros st fr fv args r st' H.
    destruct fv; try (inversion H; subst; apply offs_nil; fail).
    destruct (nth_error defs d) as [fd|]; [|inversion H; apply offs_nil].
    destruct (nth_error (st_heap st) fr) as [cur|]; [|inversion H; apply offs_nil].
    destruct (nth_error (st_heap st) (if same_fn cur d env then fr else env)) as [pf|]; [|inversion H; apply offs_nil].
    destruct (call_shape (fd_params fd) args) as [[[[cps cpv] dots] sargs]|].
    2:{ inversion H; subst. unfold offs_ok. simpl. constructor; [|constructor]. apply node_all_call.
        split; [split; discriminate | constructor]. }
    match type of H with context [bind_params ?a ?b ?c ?d ?e ?f ?g] =>
      destruct (bind_params a b c d e f g) as [before tr st2a|before tr st2|] eqn:B end.
    - apply bind_params_ok in B. destruct B as [-> ->].
      match type of H with context [ev ?s2 ?n2 (fd_body fd)] => destruct (ev s2 n2 (fd_body fd)) as [rb st3] eqn:EB end.
      pose proof (Hev _ _ _ _ _ EB) as HB.
      assert (NODE : forall dd v0 lg ms, dd <> DHit -> dd <> DStored ->
                offs_ok (mkRes (OVal v0) false (r_out rb) lg [EvCall (fd_key fd) (map fst args) ([] ++ r_tr rb) 0 (0 + r_miss rb) v0 (r_out rb) dd] ms)).
      { intros dd v0 lg ms N1 N2. unfold offs_ok. simpl. constructor; [|constructor]. apply node_all_call.
        split; [split; auto | exact HB]. }
      destruct (r_oc rb) as [v| |]; try (inversion H; subst; auto; fail).
      destruct (negb (0 + r_miss rb =? 0)); [inversion H; subst; apply NODE; discriminate|].
      destruct (is_err v); [inversion H; subst; apply NODE; discriminate|].
      destruct (has_function v); [inversion H; subst; apply NODE; discriminate|].
      destruct (negb (key_ok sargs)); inversion H; subst; apply NODE; discriminate.
    - inversion H; subst. unfold offs_ok. simpl. constructor; [|constructor]. apply node_all_call.
      split; [split; discriminate|]. eapply bind_err_hit_free; eauto. constructor.
    - inversion H; apply offs_nil.
  Qed.
End OffEv.

Theorem eval_off : forall fuel defs st fr e r st', eval fuel false defs st fr e = (r, st') -> offs_ok r.
Proof.
  induction fuel as [|f IH]; intros defs st fr e r st' H.
  { simpl in H. inversion H. apply offs_nil. }
  assert (Hev : forall st fr e r st', eval f false defs st fr e = (r, st') -> offs_ok r) by (intros; eapply IH; eauto).
  simpl in H. destruct e.
  - inversion H; apply offs_nil.
  - destruct (get defs (st_heap st) fr x) eqn:G; inversion H; subst; try apply offs_nil.
    + unfold offs_ok. simpl. eapply get_hit_free; eauto.
    + unfold offs_ok. simpl. repeat constructor.
  - destruct (eval f false defs st fr e) as [r1 st1] eqn:E1. pose proof (Hev _ _ _ _ _ E1).
    destruct (r_oc r1) as [v| |]; try (inversion H; subst; auto; fail).
    destruct (is_err v); [inversion H; subst; auto with memooff|].
    destruct (assign defs st1 fr x v) as [r2 st2] eqn:A. inversion H; subst.
    apply offs_then; auto. unfold offs_ok. eapply assign_hit_free; eauto.
  - destruct (nth_error defs d) as [fd|]; [|inversion H; apply offs_nil].
    destruct (fd_name fd); [|inversion H; apply offs_nil].
    destruct (assign defs st fr i (VFun d fr)) as [r1 st1] eqn:A.
    assert (offs_ok r1) by (unfold offs_ok; eapply assign_hit_free; eauto).
    destruct (r_oc r1) as [v| |]; try (inversion H; subst; auto; fail).
    destruct (is_err v); inversion H; subst; auto with memooff.
  - destruct (eval f false defs st fr e) as [rf st1] eqn:E1. pose proof (Hev _ _ _ _ _ E1).
    destruct (r_oc rf) as [fv| |]; try (inversion H; subst; auto; fail).
    destruct (is_err fv); [inversion H; subst; auto with memooff|].
    destruct (eval_list (eval f false defs) st1 fr args) as [[ra vals] st2] eqn:E2.
    pose proof (eval_list_off _ Hev _ _ _ _ _ _ E2) as GA.
    destruct (r_oc ra) as [av| |]; try (inversion H; subst; auto with memooff; fail).
    destruct (is_err av); [inversion H; subst; auto with memooff|].
    destruct (apply_fn (eval f false defs) false defs st2 fr fv vals) as [rc st3] eqn:E3.
    pose proof (apply_fn_off _ defs Hev _ _ _ _ _ _ E3).
    inversion H; subst; auto with memooff.
  - destruct (eval_list (eval f false defs) st fr es) as [[ra vals] st1] eqn:E2.
    pose proof (eval_list_off _ Hev _ _ _ _ _ _ E2) as GA.
    destruct (r_oc ra) as [av| |]; try (inversion H; subst; auto; fail).
    destruct (is_err av); inversion H; subst; auto with memooff.
  - destruct (eval f false defs st fr e1) as [r1 st1] eqn:E1. pose proof (Hev _ _ _ _ _ E1).
    destruct (r_oc r1) as [v1| |]; try (inversion H; subst; auto; fail).
    destruct (is_err v1); [inversion H; subst; auto with memooff|].
    destruct (eval f false defs st1 fr e2) as [r2 st2] eqn:E2. pose proof (Hev _ _ _ _ _ E2).
    destruct (r_oc r2) as [v2| |]; try (inversion H; subst; auto with memooff; fail).
    destruct (is_err v2); inversion H; subst; auto with memooff.
  - destruct (eval f false defs st fr e1) as [rc st1] eqn:E1. pose proof (Hev _ _ _ _ _ E1).
    destruct (r_oc rc) as [vc| |]; try (inversion H; subst; auto; fail).
    destruct vc; try (inversion H; subst; auto with memooff; fail).
    destruct (eval f false defs st1 fr (if b then e2 else e3)) as [rb st2] eqn:E2. pose proof (Hev _ _ _ _ _ E2).
    inversion H; subst; auto with memooff.
  - destruct (eval f false defs st fr e1) as [r1 st1] eqn:E1. pose proof (Hev _ _ _ _ _ E1).
    destruct (r_oc r1) as [v1| |]; try (inversion H; subst; auto; fail).
    destruct (is_err v1); [inversion H; subst; auto|].
    destruct (eval f false defs st1 fr e2) as [r2 st2] eqn:E2. pose proof (Hev _ _ _ _ _ E2).
    inversion H; subst; auto with memooff.
  - destruct (eval_list (eval f false defs) st fr es) as [[ra vals] st1] eqn:E2.
    pose proof (eval_list_off _ Hev _ _ _ _ _ _ E2) as GA.
    destruct (r_oc ra) as [av| |]; try (inversion H; subst; auto; fail).
    destruct (is_err av); [inversion H; subst; auto with memooff|].
    destruct (all_some _); inversion H; subst; auto with memooff; apply offs_then; auto; apply offs_nil.
  - inversion H; apply offs_nil.
  - inversion H; apply offs_nil.
  - inversion H; subst. unfold offs_ok. simpl. repeat constructor.
  - destruct (del_walk _ _ _ _); inversion H; subst; unfold offs_ok; simpl; repeat constructor.
  - destruct (eval f false defs st fr e) as [r1 st1] eqn:E1. pose proof (Hev _ _ _ _ _ E1).
    destruct (r_oc r1) as [v| |]; inversion H; subst; auto with memooff.
Qed.

(* no DStored node => nothing written: the cache of the off run stays empty *)
Lemma off_stores_nil : forall tr, trace_all off_node tr -> stores_of tr = [].
Proof.
  assert (HE : forall e, node_all off_node e -> ev_stores e = []).
  { induction e using event_ind'; intros HN; try reflexivity.
    rewrite ev_stores_call. apply node_all_call in HN. destruct HN as [[_ NS] HI].
    assert (S : stores_of inner = []).
    { unfold stores_of. unfold trace_all in HI. clear NS. induction inner as [|x l IHl]; simpl; auto.
      rewrite (Forall_inv H (Forall_inv HI)). simpl.
      apply IHl; [apply (Forall_inv_tail H) | apply (Forall_inv_tail HI)]. }
    rewrite S. destruct d; auto. congruence. }
  intros tr HT. unfold stores_of. unfold trace_all in HT. induction HT as [|x l Hx Hl IH]; simpl; auto.
  rewrite (HE x Hx). simpl. exact IH.
Qed.
Theorem eval_off_cache : forall fuel defs st fr e r st',
  eval fuel false defs st fr e = (r, st') -> st_cache st = [] -> st_cache st' = [].
Proof.
  intros fuel defs st fr e r st' H HC.
  pose proof (eval_off _ _ _ _ _ _ _ H) as HO. pose proof (off_stores_nil _ HO) as HS.
  destruct (st_cache st') as [|ce c] eqn:E; auto.
  destruct (eval_logged _ _ _ _ _ _ _ _ H ce) as [A|A]; [rewrite E; left; auto | rewrite HC in A; contradiction | rewrite HS in A; contradiction].
Qed.
Theorem run_off : forall fuel defs inputs st, st_cache st = [] ->
  Forall (fun p => st_cache (snd p) = [] /\ trace_all off_node (r_tr (fst p))) (run false fuel defs st inputs).
Proof.
  intros fuel defs. induction inputs as [|e rest IH]; simpl; intros st HC; [constructor|].
  destruct (eval fuel false defs st 0 e) as [r st'] eqn:E.
  pose proof (eval_off_cache _ _ _ _ _ _ _ E HC) as HC'.
  constructor; simpl; auto. split; auto. eapply eval_off; eauto.
Qed.

(* ---------------------------------------------------------------- for whole histories from the initial state *)
Theorem run_clean_init : forall on fuel defs inputs,
  Forall (fun p => cache_clean (st_cache (snd p))) (run on fuel defs init_state inputs).
Proof. intros. apply run_clean. exact init_clean. Qed.
Theorem run_hits_init : forall on fuel defs inputs,
  Forall (fun p => trace_all hit_node (r_tr (fst p))) (run on fuel defs init_state inputs).
Proof. intros. apply run_hits. exact init_clean. Qed.
Theorem run_off_init : forall fuel defs inputs,
  Forall (fun p => st_cache (snd p) = [] /\ trace_all off_node (r_tr (fst p))) (run false fuel defs init_state inputs).
Proof. intros. apply run_off. reflexivity. Qed.
