(* C15 (1), exact form: for a complete program line mode and file mode return the SAME tree (no renaming
   left): Linemode_sim + Linemode_lex + Parser_noeol. *)
From Coq Require Import List ZArith NArith Bool String Lia.
From GrolGen Require Import Gen_Consts Gen_Prec Gen_ParserTables.
From GrolModel Require Import Ast Lexer Parser Frontend.
From GrolProofs Require Import Parser_eqns Parser_proofs Parser_term Linemode_sim Linemode_lex Parser_noeol.
Import ListNotations.
Local Open Scope Z_scope.

(* the parser alone: every token list whose end markers form a suffix, every fuel *)
Theorem linemode_parse_exact conv fuel toks r :
  closed (mkPtok (mkTok token_EOL []) false false) toks ->
  parse_program conv fuel token_EOL toks = POk r -> clean_result r = true ->
  parse_program conv fuel token_EOF (map fp toks) = POk (mkPres (pr_tree r) [] false (pr_all_lexed r)).
Proof.
  intros Hcl H Hc. rewrite (linemode_parse_sim conv _ _ _ H Hc).
  now rewrite (clean_tree_fixed_by_renaming conv fuel token_EOL toks r (or_intror eq_refl) Hcl H Hc).
Qed.

(* the lexer's output has its only end marker in last position *)
Lemma front_tokens_closed lineMode src :
  closed (mkPtok (mkTok (Frontend.end_type lineMode) []) false false) (front_tokens lineMode src).
Proof.
  apply closed_last.
  - unfold front_tokens. intros x Hx.
    assert (Hr : removelast (map to_ptok (lex_all lineMode src)) = map to_ptok (removelast (lex_all lineMode src))).
    { generalize (lex_all lineMode src). induction l as [|a [|b l'] IHl]; try reflexivity.
      change (removelast (map to_ptok (a :: b :: l'))) with (to_ptok a :: removelast (map to_ptok (b :: l'))).
      now rewrite IHl. }
    rewrite Hr in Hx. apply in_map_iff in Hx as (t & <- & Ht).
    apply lex_from_body_not_end in Ht. unfold is_end in Ht. unfold isE, pty, to_ptok. cbn [pk ttype]. exact Ht.
  - unfold isE, pty. cbn [pk ttype]. destruct lineMode; cbn [Frontend.end_type]; [now rewrite Z.eqb_refl, orb_true_r|now rewrite Z.eqb_refl].
Qed.

(* C15, sentence 1, on the model of the whole front end, exact *)
Theorem linemode_same_tree_exact conv src r :
  Frontend.unterminated true src = false ->
  front_parse conv true src = POk r -> clean r = true ->
  front_parse conv false src = POk (mkPres (pr_tree r) [] false (pr_all_lexed r)).
Proof.
  intros Hu H Hc. rewrite (linemode_same_tree conv src r Hu H Hc). do 2 f_equal.
  unfold front_parse in H.
  destruct (parse_program conv (default_fuel (front_tokens true src)) (Frontend.end_type true) (front_tokens true src)) as [r0| |] eqn:E; try discriminate.
  injection H as <-. cbn [pr_tree].
  apply (clean_tree_fixed_by_renaming conv (default_fuel (front_tokens true src)) token_EOL (front_tokens true src) r0 (or_intror eq_refl)).
  - exact (front_tokens_closed true src).
  - exact E.
  - unfold clean in Hc. cbn [pr_errs pr_cont] in Hc. unfold clean_result. destruct (pr_errs r0); [|discriminate Hc].
    apply negb_true_iff in Hc. apply orb_false_elim in Hc as [Hc _]. now rewrite Hc.
Qed.
