(* C15 (1): the parser on a line-mode token stream and on the file-mode stream - the same tokens with
   the end-of-line marker replaced by the end-of-file marker - runs in lockstep as long as the line-mode
   run stays clean (no error, no continuation request): it returns the same tree (up to the type of
   end-marker tokens, which a clean tree does not contain) and the corresponding state.
   One induction on the fuel over the 13 mutually recursive functions. *)
From Coq Require Import List ZArith NArith Bool String Lia.
From GrolGen Require Import Gen_Consts Gen_Prec Gen_ParserTables.
From GrolModel Require Import Ast Parser.
From GrolProofs Require Import Parser_eqns Parser_proofs.
Import ListNotations.
Local Open Scope Z_scope.

(* ---------- the renaming EOL -> EOF on tokens, states and trees ---------- *)
Definition ft (t : tok) : tok := if Z.eqb (ttype t) token_EOL then mkTok token_EOF (tlit t) else t.
Definition fp (t : ptok) : ptok := mkPtok (ft (pk t)) (pk_ws t) (pk_nl t).
Definition fs (s : pstate) : pstate :=
  mkPs (ft (ps_prev s)) (fp (ps_cur s)) (fp (ps_peek s)) (map fp (ps_rest s)) (fp (ps_end s)) (ps_cont s) (ps_errs s).

Fixpoint fnode (n : node) : node :=
  match n with
  | NIdent t => NIdent (ft t)
  | NInt t v => NInt (ft t) v
  | NFloat t b => NFloat (ft t) b
  | NString t => NString (ft t)
  | NBool t v => NBool (ft t) v
  | NComment t a b => NComment (ft t) a b
  | NControl t => NControl (ft t)
  | NReturn t v => NReturn (ft t) (option_map fnode v)
  | NStmts l => NStmts (map (option_map fnode) l)
  | NPrefix t r => NPrefix (ft t) (option_map fnode r)
  | NPostfix t p => NPostfix (ft t) (ft p)
  | NInfix t l r => NInfix (ft t) (option_map fnode l) (option_map fnode r)
  | NFor t c b => NFor (ft t) (option_map fnode c) (option_map fnode b)
  | NIf t c a b => NIf (ft t) (option_map fnode c) (option_map fnode a) (option_map fnode b)
  | NBuiltin t ps => NBuiltin (ft t) (option_map (map (option_map fnode)) ps)
  | NFunc t nm ps b v l =>
    NFunc (ft t) (option_map ft nm) (option_map (map (option_map fnode)) ps) (option_map fnode b) v l
  | NCall t f a => NCall (ft t) (option_map fnode f) (option_map (map (option_map fnode)) a)
  | NArray t e => NArray (ft t) (option_map (map (option_map fnode)) e)
  | NIndex t l i => NIndex (ft t) (option_map fnode l) (option_map fnode i)
  | NMap t ps => NMap (ft t) (map (fun kv => (option_map fnode (fst kv), option_map fnode (snd kv))) ps)
  | NMacro t ps b => NMacro (ft t) (option_map (map (option_map fnode)) ps) (option_map fnode b)
  end.

Notation fo := (option_map fnode).
Notation fl := (map (option_map fnode)).
Notation fol := (option_map (map (option_map fnode))).
Definition fpairs (l : list (option node * option node)) : list (option node * option node) :=
  map (fun kv => (fo (fst kv), fo (snd kv))) l.

(* ---------- token types ---------- *)
Lemma ft_type_other t x : x <> token_EOL -> x <> token_EOF -> (ttype (ft t) =? x) = (ttype t =? x).
Proof.
  intros H1 H2. unfold ft. destruct (ttype t =? token_EOL) eqn:E; [|reflexivity].
  apply Z.eqb_eq in E. rewrite E. cbn [ttype].
  transitivity false; [|symmetry]; apply Z.eqb_neq; congruence.
Qed.
Lemma ft_type_eol t : (ttype (ft t) =? token_EOL) = false.
Proof. unfold ft. destruct (ttype t =? token_EOL) eqn:E; [reflexivity|exact E]. Qed.
Lemma ft_type_eof t : (ttype (ft t) =? token_EOF) = (ttype t =? token_EOF) || (ttype t =? token_EOL).
Proof.
  unfold ft. destruct (ttype t =? token_EOL) eqn:E.
  - cbn [ttype]. rewrite Z.eqb_refl. now rewrite orb_true_r.
  - now rewrite orb_false_r.
Qed.
Lemma ft_lit t : tlit (ft t) = tlit t.
Proof. unfold ft. now destruct (ttype t =? token_EOL). Qed.

(* the generated tables have no entry for either end marker *)
Lemma tbl_eol_eof :
  table_get prefix_fns token_EOL = None /\ table_get prefix_fns token_EOF = None /\
  table_get infix_fns token_EOL = None /\ table_get infix_fns token_EOF = None /\
  table_get postfix_fns token_EOL = None /\ table_get postfix_fns token_EOF = None /\
  table_get precedences token_EOL = None /\ table_get precedences token_EOF = None.
Proof. vm_compute. repeat split. Qed.

Lemma ft_tbl {A} (T : list (Z * A)) t :
  table_get T token_EOL = None -> table_get T token_EOF = None -> table_get T (ttype (ft t)) = table_get T (ttype t).
Proof.
  intros H1 H2. unfold ft. destruct (ttype t =? token_EOL) eqn:E; [|reflexivity].
  apply Z.eqb_eq in E. rewrite E. cbn [ttype]. now rewrite H1, H2.
Qed.

(* ---------- states ---------- *)
Lemma fs_next s : nextToken (fs s) = fs (nextToken s).
Proof. unfold nextToken, fs. cbn. destruct (ps_rest s); reflexivity. Qed.
Lemma fs_cont s : set_cont (fs s) = fs (set_cont s). Proof. reflexivity. Qed.
Lemma fs_err e s : add_err e (fs s) = fs (add_err e s). Proof. reflexivity. Qed.
Lemma fs_ps_cont s : ps_cont (fs s) = ps_cont s. Proof. reflexivity. Qed.
Lemma fs_dirty s : dirty (fs s) = dirty s. Proof. reflexivity. Qed.
Lemma fs_cur_pk s : pk (ps_cur (fs s)) = ft (pk (ps_cur s)). Proof. reflexivity. Qed.
Lemma fs_prev s : ps_prev (fs s) = ft (ps_prev s). Proof. reflexivity. Qed.
Lemma fs_peek_ws s : pk_ws (ps_peek (fs s)) = pk_ws (ps_peek s). Proof. reflexivity. Qed.
Lemma fs_peek_nl s : pk_nl (ps_peek (fs s)) = pk_nl (ps_peek s). Proof. reflexivity. Qed.
Lemma fs_cur_nl s : pk_nl (ps_cur (fs s)) = pk_nl (ps_cur s). Proof. reflexivity. Qed.

Lemma curIs_fs s x : x <> token_EOL -> x <> token_EOF -> curIs (fs s) x = curIs s x.
Proof. intros. unfold curIs, pty, fs; cbn [ps_cur ps_peek ps_prev pk fp]. now apply ft_type_other. Qed.
Lemma peekIs_fs s x : x <> token_EOL -> x <> token_EOF -> peekIs (fs s) x = peekIs s x.
Proof. intros. unfold peekIs, pty, fs; cbn [ps_cur ps_peek ps_prev pk fp]. now apply ft_type_other. Qed.
Lemma curIs_fs_eol s : curIs (fs s) token_EOL = false. Proof. unfold curIs, pty, fs; cbn [ps_cur ps_peek ps_prev pk fp]. apply ft_type_eol. Qed.
Lemma peekIs_fs_eol s : peekIs (fs s) token_EOL = false. Proof. unfold peekIs, pty, fs; cbn [ps_cur ps_peek ps_prev pk fp]. apply ft_type_eol. Qed.
Lemma curIs_fs_eof s : curIs (fs s) token_EOF = curIs s token_EOF || curIs s token_EOL.
Proof. unfold curIs, pty, fs; cbn [ps_cur ps_peek ps_prev pk fp]. apply ft_type_eof. Qed.
Lemma peekIs_fs_eof s : peekIs (fs s) token_EOF = peekIs s token_EOF || peekIs s token_EOL.
Proof. unfold peekIs, pty, fs; cbn [ps_cur ps_peek ps_prev pk fp]. apply ft_type_eof. Qed.

Lemma tbl_prefix_cur s : table_get prefix_fns (pty (ps_cur (fs s))) = table_get prefix_fns (pty (ps_cur s)).
Proof. unfold pty, fs; cbn [ps_cur ps_peek ps_prev pk fp]. apply ft_tbl; apply tbl_eol_eof. Qed.
Lemma tbl_infix_peek s : table_get infix_fns (pty (ps_peek (fs s))) = table_get infix_fns (pty (ps_peek s)).
Proof. unfold pty, fs; cbn [ps_cur ps_peek ps_prev pk fp]. apply ft_tbl; apply tbl_eol_eof. Qed.
Lemma tbl_postfix_peek s : table_get postfix_fns (pty (ps_peek (fs s))) = table_get postfix_fns (pty (ps_peek s)).
Proof. unfold pty, fs; cbn [ps_cur ps_peek ps_prev pk fp]. apply ft_tbl; apply tbl_eol_eof. Qed.
Lemma peekPrec_fs s : peekPrecedence (fs s) = peekPrecedence s.
Proof. unfold peekPrecedence, precedence_of, pty, fs; cbn [ps_cur ps_peek ps_prev pk fp]. rewrite ft_tbl; [reflexivity|apply tbl_eol_eof|apply tbl_eol_eof]. Qed.
Lemma curPrec_fs s : curPrecedence (fs s) = curPrecedence s.
Proof. unfold curPrecedence, precedence_of, pty, fs; cbn [ps_cur ps_peek ps_prev pk fp]. rewrite ft_tbl; [reflexivity|apply tbl_eol_eof|apply tbl_eol_eof]. Qed.
Lemma pty_peek_other s x : x <> token_EOL -> x <> token_EOF -> (pty (ps_peek (fs s)) =? x) = (pty (ps_peek s) =? x).
Proof. intros. unfold pty, fs; cbn [ps_cur ps_peek ps_prev pk fp]. now apply ft_type_other. Qed.
Lemma cur_lit_fs s : tlit (pk (ps_cur (fs s))) = tlit (pk (ps_cur s)). Proof. unfold fs; cbn [ps_cur pk fp]. apply ft_lit. Qed.
Lemma cur_type_other s x : x <> token_EOL -> x <> token_EOF -> (ttype (pk (ps_cur (fs s))) =? x) = (ttype (pk (ps_cur s)) =? x).
Proof. intros. unfold fs; cbn [ps_cur ps_prev pk fp]. now apply ft_type_other. Qed.
Lemma prev_type_other s x : x <> token_EOL -> x <> token_EOF -> (ttype (ps_prev (fs s)) =? x) = (ttype (ps_prev s) =? x).
Proof. intros. unfold fs; cbn [ps_cur ps_prev pk fp]. now apply ft_type_other. Qed.

Ltac tokneq := let E := fresh in intros E; vm_compute in E; discriminate E.

(* expectPeek, when the line-mode state stays clean *)
Lemma sim_expectPeek s x b s2 : x <> token_EOL -> x <> token_EOF ->
  expectPeek s x = (b, s2) -> dirty s2 = false -> expectPeek (fs s) x = (b, fs s2).
Proof.
  intros H1 H2 H Hc. destruct (expectPeek_spec _ _ _ _ H) as [(-> & Hp & ->)|(-> & Hd & _)]; [|congruence].
  unfold expectPeek. rewrite peekIs_fs, Hp, fs_next by assumption. reflexivity.
Qed.
Lemma le_expectPeek s x b s2 : expectPeek s x = (b, s2) -> le s s2.
Proof.
  intros H. destruct (expectPeek_spec _ _ _ _ H) as [(_ & _ & ->)|(_ & _ & Hle)]; [apply le_next|exact Hle].
Qed.

(* ---------- tree-inspecting helpers commute with the renaming ---------- *)
Lemma node_tok_fnode n : node_tok (fnode n) = option_map ft (node_tok n).
Proof. destruct n; reflexivity. Qed.

Lemma okParamList_fl l : okParamList (fl l) = option_map (option_map ft) (okParamList l).
Proof.
  induction l as [|x l IH]; [reflexivity|].
  cbn [map okParamList]. destruct x as [n|]; cbn [option_map]; [|reflexivity].
  rewrite node_tok_fnode. destruct (node_tok n) as [t|]; cbn [option_map]; [|reflexivity].
  rewrite !ft_type_other by tokneq.
  destruct l as [|y l'].
  - cbn [map]. destruct (ttype t =? token_DOTDOT); [reflexivity|]. destruct (ttype t =? token_IDENT); reflexivity.
  - cbn [map] in *. destruct (ttype t =? token_IDENT); [exact IH|reflexivity].
Qed.

Lemma is_infix_colon_fo kv :
  is_infix_colon (fo kv) = option_map (fun p => (fo (fst p), fo (snd p))) (is_infix_colon kv).
Proof.
  destruct kv as [n|]; [|reflexivity]. destruct n; try reflexivity.
  cbn [option_map fnode is_infix_colon]. rewrite ft_type_other by tokneq.
  destruct (ttype t =? token_COLON); reflexivity.
Qed.

(* ---------- the functions outside the mutual block ---------- *)
Section Sim.
Variable conv : numconv.

Lemma sim_float s x s1 : parseFloatLiteral conv s = ROk x s1 -> dirty s1 = false ->
  parseFloatLiteral conv (fs s) = ROk (fo x) (fs s1).
Proof.
  unfold parseFloatLiteral. rewrite cur_lit_fs. destruct (conv_float conv _); intros [= <- <-] Hc.
  - reflexivity.
  - discriminate Hc.
Qed.
Lemma le_float s x s1 : parseFloatLiteral conv s = ROk x s1 -> le s s1.
Proof. unfold parseFloatLiteral. destruct (conv_float conv _); intros [= <- <-]; auto with parse. Qed.

Lemma sim_int s x s1 : parseIntegerLiteral conv s = ROk x s1 -> dirty s1 = false ->
  parseIntegerLiteral conv (fs s) = ROk (fo x) (fs s1).
Proof.
  unfold parseIntegerLiteral. rewrite cur_lit_fs. destruct (conv_int conv _).
  - intros [= <- <-] _. reflexivity.
  - apply sim_float.
Qed.
Lemma le_int s x s1 : parseIntegerLiteral conv s = ROk x s1 -> le s s1.
Proof. unfold parseIntegerLiteral. destruct (conv_int conv _); [intros [= <- <-]; auto with parse|apply le_float]. Qed.

Lemma sim_ident s x s1 : parseIdentifier s = ROk x s1 -> parseIdentifier (fs s) = ROk (fo x) (fs s1).
Proof.
  unfold parseIdentifier. rewrite tbl_postfix_peek. destruct (table_get postfix_fns _); intros [= <- <-].
  - cbv zeta. rewrite fs_next. reflexivity.
  - reflexivity.
Qed.
Lemma le_ident s x s1 : parseIdentifier s = ROk x s1 -> le s s1.
Proof. unfold parseIdentifier. destruct (table_get postfix_fns _); intros [= <- <-]; auto with parse. Qed.

Lemma sim_comment s x s1 : parseComment s = ROk x s1 -> dirty s1 = false ->
  parseComment (fs s) = ROk (fo x) (fs s1).
Proof.
  unfold parseComment. cbv zeta. rewrite fs_cur_pk, ft_lit, fs_cur_nl, fs_peek_nl, ft_type_other by tokneq.
  rewrite peekIs_fs_eof, peekIs_fs_eol.
  destruct (ttype (pk (ps_cur s)) =? token_BLOCKCOMMENT).
  - destruct (ends_with_star_slash _); intros [= <- <-] Hc; [reflexivity|rewrite dirty_cont in Hc; discriminate Hc].
  - destruct (pk_nl (ps_peek s)), (peekIs s token_EOF), (peekIs s token_EOL); cbn [negb andb orb];
      try discriminate; intros [= <- <-] _; reflexivity.
Qed.
Lemma le_comment s x s1 : parseComment s = ROk x s1 -> le s s1.
Proof.
  unfold parseComment. cbv zeta. destruct (_ =? token_BLOCKCOMMENT).
  - destruct (ends_with_star_slash _); intros [= <- <-]; auto with parse.
  - destruct (_ && _ && _); [discriminate|]. intros [= <- <-]; auto with parse.
Qed.

Lemma sim_funcParamsLoop f : forall acc s ids s2,
  funcParamsLoop f acc s = Some (ids, s2) ->
  funcParamsLoop f (fl acc) (fs s) = Some (fl ids, fs s2) /\ dirty s2 = dirty s.
Proof.
  induction f as [|f IH]; intros acc s ids s2 H; [discriminate|].
  cbn [funcParamsLoop] in *. rewrite peekIs_fs by tokneq.
  destruct (peekIs s token_COMMA).
  - cbv zeta in *. destruct (IH _ _ _ _ H) as [E D]. rewrite !fs_next, fs_cur_pk.
    rewrite map_app in E. cbn [map option_map fnode] in E. rewrite E. split; [reflexivity|].
    rewrite D, !dirty_next. reflexivity.
  - injection H as <- <-. split; reflexivity.
Qed.

Lemma sim_funcParams f s pv s3 : parseFunctionParameters f s = ROk pv s3 -> dirty s3 = false ->
  parseFunctionParameters f (fs s) = ROk (fol (fst pv), snd pv) (fs s3).
Proof.
  unfold parseFunctionParameters. rewrite peekIs_fs by tokneq.
  destruct (peekIs s token_RPAREN).
  - intros [= <- <-] _. rewrite fs_next. reflexivity.
  - cbv zeta. rewrite fs_next.
    destruct (funcParamsLoop f _ (nextToken s)) as [[ids s2]|] eqn:E; [|discriminate].
    destruct (sim_funcParamsLoop _ _ _ _ _ E) as [E' _]. cbn [map option_map fnode] in E'.
    change (fp (ps_cur (nextToken s))) with (ps_cur (fs (nextToken s))).
    rewrite fs_cur_pk. rewrite E'.
    destruct (expectPeek s2 token_RPAREN) as [ok s3'] eqn:Ex.
    destruct ok; intros [= <- <-] Hc.
    + rewrite (sim_expectPeek s2 token_RPAREN _ _ ltac:(tokneq) ltac:(tokneq) Ex Hc).
      rewrite prev_type_other by tokneq. reflexivity.
    + destruct (expectPeek_spec _ _ _ _ Ex) as [(? & _)|(_ & Hd & _)]; congruence.
Qed.
Lemma le_funcParams f s pv s3 : parseFunctionParameters f s = ROk pv s3 -> le s s3.
Proof.
  unfold parseFunctionParameters. destruct (peekIs s token_RPAREN).
  - intros [= <- <-]. auto with parse.
  - cbv zeta. destruct (funcParamsLoop f _ (nextToken s)) as [[ids s2]|] eqn:E; [|discriminate].
    destruct (sim_funcParamsLoop _ _ _ _ _ E) as [_ D].
    destruct (expectPeek s2 token_RPAREN) as [ok s3'] eqn:Ex. pose proof (le_expectPeek _ _ _ _ Ex) as L.
    assert (le s s2) by (unfold le; rewrite D, dirty_next; auto).
    destruct ok; intros [= <- <-]; eapply le_trans; eassumption.
Qed.
End Sim.

(* ---------- the mutually recursive core ---------- *)
Lemma le_next_r a b : le a (nextToken b) -> le a b.
Proof. unfold le. now rewrite dirty_next. Qed.

Global Hint Rewrite fs_next fs_cont fs_err fs_ps_cont fs_dirty fs_cur_pk fs_prev fs_peek_ws fs_peek_nl fs_cur_nl
  curIs_fs_eol peekIs_fs_eol curIs_fs_eof peekIs_fs_eof tbl_prefix_cur tbl_infix_peek tbl_postfix_peek
  peekPrec_fs curPrec_fs cur_lit_fs is_infix_colon_fo okParamList_fl orb_false_r andb_false_r : fsdb.
Global Hint Rewrite curIs_fs peekIs_fs pty_peek_other cur_type_other prev_type_other ft_type_other
  using (first [assumption | tokneq]) : fsdb.

(* the parameter list of parseLambdaMulti *)
Definition lam_params (left : option node) (more : option (list (option node))) : option (list (option node)) :=
  match left with
  | None => match more with Some [] => None | m => m end
  | Some _ => Some (left :: match more with Some m => m | None => [] end)
  end.
Definition unopt (o : option (list (option node))) : list (option node) := match o with Some l => l | None => [] end.
Lemma lam_params_f left more : lam_params (fo left) (fol more) = fol (lam_params left more).
Proof. destruct left, more as [[|]|]; reflexivity. Qed.
Lemma unopt_f o : unopt (fol o) = fl (unopt o).
Proof. destruct o; reflexivity. Qed.
Lemma parseLambdaMulti_S' conv f left more s :
  parseLambdaMulti conv (S f) left more s =
    match okParamList (unopt (lam_params left more)) with
    | None => ROk None (add_err ELambdaParam s)
    | Some dd =>
      if peekIs s token_LBRACE then
        dob (b, s2) <- parseBlockStatement conv f (nextToken s);
        if ps_cont s2 then ROk None s2
        else ROk (Some (NFunc (pk (ps_cur s)) None (lam_params left more) b
                             (match dd with Some _ => true | None => false end) true)) s2
      else
        dob (body, s2) <- parseExpression conv f (curPrecedence s) (nextToken s);
        ROk (Some (NFunc (pk (ps_cur s)) None (lam_params left more) (Some (NStmts [body]))
                         (match dd with Some _ => true | None => false end) true)) s2
    end.
Proof. reflexivity. Qed.

Local Opaque lam_params unopt curPrecedence peekPrecedence precedence_of table_get prefix_fns infix_fns postfix_fns precedences curIs peekIs
  parseExpression exprLoop prefixFn infixFn parseLambdaMulti parseGroupedExpression parseIfExpression parseBlockStatement
  blockLoop parseStatement parseExpressionList exprListLoop parseMapLoop parseIdentifier parseIntegerLiteral parseFloatLiteral
  parseComment parseFunctionParameters expectPeek okParamList is_infix_colon nextToken set_cont add_err fs ft fp dirty.

Section Main.
Variable conv : numconv.
Notation pe := (parseExpression conv).
Notation el := (exprLoop conv).

Definition SE f := forall prec s x s1, pe f prec s = ROk x s1 ->
  le s s1 /\ (dirty s1 = false -> pe f prec (fs s) = ROk (fo x) (fs s1)).
Definition SL f := forall prec left s x s1, el f prec left s = ROk x s1 ->
  le s s1 /\ (dirty s1 = false -> el f prec (fo left) (fs s) = ROk (fo x) (fs s1)).
Definition SP f := forall fn s x s1, prefixFn conv f fn s = ROk x s1 ->
  le s s1 /\ (dirty s1 = false -> prefixFn conv f fn (fs s) = ROk (fo x) (fs s1)).
Definition SI f := forall fn left s x s1, infixFn conv f fn left s = ROk x s1 ->
  le s s1 /\ (dirty s1 = false -> infixFn conv f fn (fo left) (fs s) = ROk (fo x) (fs s1)).
Definition SM f := forall left more s x s1, parseLambdaMulti conv f left more s = ROk x s1 ->
  le s s1 /\ (dirty s1 = false -> parseLambdaMulti conv f (fo left) (fol more) (fs s) = ROk (fo x) (fs s1)).
Definition SG f := forall s x s1, parseGroupedExpression conv f s = ROk x s1 ->
  le s s1 /\ (dirty s1 = false -> parseGroupedExpression conv f (fs s) = ROk (fo x) (fs s1)).
Definition SIf f := forall s x s1, parseIfExpression conv f s = ROk x s1 ->
  le s s1 /\ (dirty s1 = false -> parseIfExpression conv f (fs s) = ROk (fo x) (fs s1)).
Definition SB f := forall s x s1, parseBlockStatement conv f s = ROk x s1 ->
  le s s1 /\ (dirty s1 = false -> parseBlockStatement conv f (fs s) = ROk (fo x) (fs s1)).
Definition SBL f := forall acc s x s1, blockLoop conv f acc s = ROk x s1 ->
  le s s1 /\ (dirty s1 = false -> blockLoop conv f (fl acc) (fs s) = ROk (fo x) (fs s1)).
Definition SS f := forall s x s1, parseStatement conv f s = ROk x s1 ->
  le s s1 /\ (dirty s1 = false -> parseStatement conv f (fs s) = ROk (fo x) (fs s1)).
Definition SEL f := forall endt s x s1, parseExpressionList conv f endt s = ROk x s1 ->
  endt <> token_EOL -> endt <> token_EOF ->
  le s s1 /\ (dirty s1 = false -> parseExpressionList conv f endt (fs s) = ROk (fol x) (fs s1)).
Definition SELL f := forall endt acc s x s1, exprListLoop conv f endt acc s = ROk x s1 ->
  endt <> token_EOL -> endt <> token_EOF ->
  le s s1 /\ (dirty s1 = false -> exprListLoop conv f endt (fl acc) (fs s) = ROk (fol x) (fs s1)).
Definition SML f := forall t acc s x s1, parseMapLoop conv f t acc s = ROk x s1 ->
  le s s1 /\ (dirty s1 = false -> parseMapLoop conv f (ft t) (fpairs acc) (fs s) = ROk (fo x) (fs s1)).

Definition SAll f := SE f /\ SL f /\ SP f /\ SI f /\ SM f /\ SG f /\ SIf f /\ SB f /\ SBL f /\ SS f /\ SEL f /\ SELL f /\ SML f.

(* phase 1: walk the line-mode run *)
Ltac dec1 :=
  match goal with
  | H : ROk _ _ = ROk _ _ |- _ => injection H as <- <-
  | H : RPanic _ = ROk _ _ |- _ => discriminate H
  | H : RFuel = ROk _ _ |- _ => discriminate H
  | H : (if ?b then _ else _) = ROk _ _ |- _ => destruct b eqn:?
  | H : (let '(_, _) := ?p in _) = ROk _ _ |- _ => destruct p eqn:?
  | H : (match ?e with Some _ => _ | None => _ end) = ROk _ _ |- _ => destruct e eqn:?
  | H : (match ?r with ROk _ _ => _ | RPanic _ => _ | RFuel => _ end) = ROk _ _ |- _ =>
      destruct r eqn:?; [|discriminate H|discriminate H]
  | Hq : (if ?b then (_, _) else (_, _)) = (_, _) |- _ => destruct b eqn:?; injection Hq as <- <-
  end.
Ltac dec := cbv zeta in *; repeat dec1.

(* phase 2: facts about the sub-runs (monotonicity of dirtiness, and the simulation under cleanliness) *)
Ltac facts HE HL HP HI HM HG HIf HB HBL HS HEL HELL HML :=
  repeat match goal with
  | E : parseExpression conv _ _ _ = ROk _ _ |- _ => apply HE in E; destruct E as [? ?]
  | E : exprLoop conv _ _ _ _ = ROk _ _ |- _ => apply HL in E; destruct E as [? ?]
  | E : prefixFn conv _ _ _ = ROk _ _ |- _ => apply HP in E; destruct E as [? ?]
  | E : infixFn conv _ _ _ _ = ROk _ _ |- _ => apply HI in E; destruct E as [? ?]
  | E : parseLambdaMulti conv _ _ _ _ = ROk _ _ |- _ => apply HM in E; destruct E as [? ?]
  | E : parseGroupedExpression conv _ _ = ROk _ _ |- _ => apply HG in E; destruct E as [? ?]
  | E : parseIfExpression conv _ _ = ROk _ _ |- _ => apply HIf in E; destruct E as [? ?]
  | E : parseBlockStatement conv _ _ = ROk _ _ |- _ => apply HB in E; destruct E as [? ?]
  | E : blockLoop conv _ _ _ = ROk _ _ |- _ => apply HBL in E; destruct E as [? ?]
  | E : parseStatement conv _ _ = ROk _ _ |- _ => apply HS in E; destruct E as [? ?]
  | E : parseExpressionList conv _ ?endt _ = ROk _ _ |- _ =>
      let N1 := fresh in let N2 := fresh in
      assert (N1 : endt <> token_EOL) by (first [assumption|tokneq]);
      assert (N2 : endt <> token_EOF) by (first [assumption|tokneq]);
      destruct (HEL _ _ _ _ E N1 N2) as [? ?]; clear E; try clear N1 N2
  | E : exprListLoop conv _ ?endt _ _ = ROk _ _ |- _ =>
      let N1 := fresh in let N2 := fresh in
      assert (N1 : endt <> token_EOL) by (first [assumption|tokneq]);
      assert (N2 : endt <> token_EOF) by (first [assumption|tokneq]);
      destruct (HELL _ _ _ _ _ E N1 N2) as [? ?]; clear E; try clear N1 N2
  | E : parseMapLoop conv _ _ _ _ = ROk _ _ |- _ => apply HML in E; destruct E as [? ?]
  | E : parseIdentifier ?s0 = ROk _ _ |- _ =>
      lazymatch s0 with fs _ => fail | _ => idtac end;
      pose proof (le_ident _ _ _ E); apply sim_ident in E
  | E : parseIntegerLiteral conv _ = ROk _ _ |- _ =>
      pose proof (le_int conv _ _ _ E); pose proof (sim_int conv _ _ _ E); clear E
  | E : parseFloatLiteral conv _ = ROk _ _ |- _ =>
      pose proof (le_float conv _ _ _ E); pose proof (sim_float conv _ _ _ E); clear E
  | E : parseComment _ = ROk _ _ |- _ =>
      pose proof (le_comment _ _ _ E); pose proof (sim_comment _ _ _ E); clear E
  | E : parseFunctionParameters _ _ = ROk _ _ |- _ =>
      pose proof (le_funcParams _ _ _ _ E); pose proof (sim_funcParams _ _ _ _ E); clear E
  | E : expectPeek ?s ?t = (_, _) |- _ =>
      pose proof (le_expectPeek _ _ _ _ E);
      pose proof (sim_expectPeek s t _ _ ltac:(first [assumption|tokneq]) ltac:(first [assumption|tokneq]) E);
      pose proof (expectPeek_spec _ _ _ _ E); clear E
  end; cbn [fst snd option_map] in *; unfold fpairs in *; rewrite ?map_app in *; cbn [map fst snd] in *.

Ltac norm_le :=
  repeat match goal with
  | L : le (nextToken _) _ |- _ => apply le_next_l in L
  | L : le _ (nextToken _) |- _ => apply le_next_r in L
  | C : context [dirty (nextToken _)] |- _ => rewrite dirty_next in C
  | C : context [dirty (set_cont _)] |- _ => rewrite dirty_cont in C
  | C : dirty (add_err _ _) = false |- _ => discriminate C
  | C : true = false |- _ => discriminate C
  end.

(* every intermediate state of a clean run is clean *)
Ltac cleans :=
  norm_le;
  repeat match goal with
  | L : le ?a ?b, C : dirty ?b = false |- _ =>
      lazymatch goal with
      | D : dirty a = false |- _ => fail
      | _ => pose proof (dirty_false_le a b L C)
      end
  end.

Ltac solve_le :=
  unfold le in *; rewrite ?dirty_next, ?dirty_cont, ?dirty_err in *; intros;
  repeat match goal with
  | L : dirty ?a = true -> _, D : dirty ?a = true |- _ => specialize (L D)
  end;
  rewrite ?dirty_next, ?dirty_cont, ?dirty_err in *; auto.

(* phase 3: replay the run on the renamed state *)
Ltac rew_ctx :=
  match goal with
  | Y : dirty ?a = false -> ?l = _, C : dirty ?a = false |- context [?l] => rewrite (Y C)
  | Hq : ?c = _ |- context [?c] =>
      lazymatch c with
      | dirty _ => fail
      | _ => tryif is_var c then fail else rewrite Hq
      end
  end.
(* push the renaming outwards, by syntactic matching only (unification against the generated tables is expensive) *)
Ltac sidec := first [assumption | tokneq].
Ltac push1 :=
  match goal with
  | |- context [nextToken (fs ?s)] => rewrite (fs_next s)
  | |- context [set_cont (fs ?s)] => rewrite (fs_cont s)
  | |- context [add_err ?e (fs ?s)] => rewrite (fs_err e s)
  | |- context [ps_cont (fs ?s)] => rewrite (fs_ps_cont s)
  | |- context [tlit (pk (ps_cur (fs ?s)))] => rewrite (cur_lit_fs s)
  | |- context [pk (ps_cur (fs ?s))] => rewrite (fs_cur_pk s)
  | |- context [ps_prev (fs ?s)] => rewrite (fs_prev s)
  | |- context [pk_ws (ps_peek (fs ?s))] => rewrite (fs_peek_ws s)
  | |- context [pk_nl (ps_peek (fs ?s))] => rewrite (fs_peek_nl s)
  | |- context [pk_nl (ps_cur (fs ?s))] => rewrite (fs_cur_nl s)
  | |- context [curIs (fs ?s) token_EOL] => rewrite (curIs_fs_eol s)
  | |- context [peekIs (fs ?s) token_EOL] => rewrite (peekIs_fs_eol s)
  | |- context [curIs (fs ?s) token_EOF] => rewrite (curIs_fs_eof s)
  | |- context [peekIs (fs ?s) token_EOF] => rewrite (peekIs_fs_eof s)
  | |- context [curIs (fs ?s) ?x] => rewrite (curIs_fs s x) by sidec
  | |- context [peekIs (fs ?s) ?x] => rewrite (peekIs_fs s x) by sidec
  | |- context [table_get prefix_fns (pty (ps_cur (fs ?s)))] => rewrite (tbl_prefix_cur s)
  | |- context [table_get infix_fns (pty (ps_peek (fs ?s)))] => rewrite (tbl_infix_peek s)
  | |- context [table_get postfix_fns (pty (ps_peek (fs ?s)))] => rewrite (tbl_postfix_peek s)
  | |- context [peekPrecedence (fs ?s)] => rewrite (peekPrec_fs s)
  | |- context [curPrecedence (fs ?s)] => rewrite (curPrec_fs s)
  | |- context [pty (ps_peek (fs ?s)) =? ?x] => rewrite (pty_peek_other s x) by sidec
  | |- context [ttype (ft ?t) =? ?x] => rewrite (ft_type_other t x) by sidec
  | |- context [tlit (ft ?t)] => rewrite (ft_lit t)
  | |- context [is_infix_colon (fo ?kv)] => rewrite (is_infix_colon_fo kv)
  | |- context [okParamList (fl ?l)] => rewrite (okParamList_fl l)
  | |- context [?b || false] => rewrite (orb_false_r b)
  | |- context [?b && false] => rewrite (andb_false_r b)
  end.
Ltac run := repeat (first [progress (repeat push1) | rew_ctx | progress cbv beta iota zeta | progress cbn [option_map fst snd]]).

Ltac use_all H :=
  destruct H as (HE & HL & HP & HI & HM & HG & HIf & HB & HBL & HS & HEL & HELL & HML).

Lemma SE_step f : SAll f -> SE (S f).
Proof.
  intros IH. use_all IH. intros prec s x s1 H. rewrite parseExpression_S in H. dec;
    facts HE HL HP HI HM HG HIf HB HBL HS HEL HELL HML; (split; [solve_le|]); intros Hc; cleans;
    rewrite parseExpression_S; run; try reflexivity.
Qed.

Ltac step eqn :=
  let IH := fresh "IH" in
  intros IH; use_all IH; intros;
  match goal with H : _ = ROk _ _ |- _ => rewrite eqn in H end;
  dec;
  match goal with
  | HE : SE _, HL : SL _, HP : SP _, HI : SI _, HM : SM _, HG : SG _, HIf : SIf _, HB : SB _, HBL : SBL _,
    HS : SS _, HEL : SEL _, HELL : SELL _, HML : SML _ |- _ =>
    facts HE HL HP HI HM HG HIf HB HBL HS HEL HELL HML
  end;
  (split; [solve_le | (let Hc := fresh "Hc" in intros Hc); cleans; rewrite eqn; run; try reflexivity]).


Lemma SL_step f : SAll f -> SL (S f).  Proof. unfold SL. step exprLoop_S. Qed.
Lemma SI_step f : SAll f -> SI (S f).  Proof. unfold SI. step infixFn_S. Qed.
Lemma SG_step f : SAll f -> SG (S f).  Proof. unfold SG. step parseGroupedExpression_S. Qed.
Lemma SIf_step f : SAll f -> SIf (S f). Proof. unfold SIf. step parseIfExpression_S. Qed.
Lemma SB_step f : SAll f -> SB (S f).  Proof. unfold SB. step parseBlockStatement_S. Qed.
Lemma SEL_step f : SAll f -> SEL (S f). Proof. unfold SEL. step parseExpressionList_S. Qed.
Lemma SELL_step f : SAll f -> SELL (S f). Proof. unfold SELL. step exprListLoop_S. Qed.
Lemma SML_step f : SAll f -> SML (S f). Proof. unfold SML. step parseMapLoop_S. Qed.

(* the tail of a step once the line-mode run has been walked *)
Ltac finish :=
  match goal with
  | HE : SE _, HL : SL _, HP : SP _, HI : SI _, HM : SM _, HG : SG _, HIf : SIf _, HB : SB _, HBL : SBL _,
    HS : SS _, HEL : SEL _, HELL : SELL _, HML : SML _ |- _ =>
    facts HE HL HP HI HM HG HIf HB HBL HS HEL HELL HML
  end;
  (split; [solve_le | (let Hc := fresh "Hc" in intros Hc); cleans; run; try reflexivity]).

Lemma SBL_step f : SAll f -> SBL (S f).
Proof.
  unfold SBL. intros IH; use_all IH; intros acc s x s1 H.
  rewrite blockLoop_S in H |- *. repeat push1.
  destruct (curIs s token_RBRACE), (curIs s token_EOF), (curIs s token_EOL); cbn [orb] in *; dec; finish.
Qed.

Lemma SS_step f : SAll f -> SS (S f).
Proof.
  unfold SS. intros IH; use_all IH; intros s x s1 H.
  rewrite parseStatement_S in H |- *. repeat push1. rewrite <- ?orb_assoc in *.
  dec;
    repeat match goal with
    | |- context [if peekIs ?s0 token_SEMICOLON then nextToken ?s0 else ?s0] => destruct (peekIs s0 token_SEMICOLON) eqn:?
    end; finish.
Qed.

Lemma SM_step f : SAll f -> SM (S f).
Proof.
  unfold SM. intros IH; use_all IH; intros left more s x s1 H.
  rewrite parseLambdaMulti_S' in H |- *. rewrite lam_params_f, unopt_f, okParamList_fl.
  destruct (okParamList (unopt (lam_params left more))) as [dd|]; cbn [option_map].
  - destruct dd; cbn [option_map]; dec; finish.
  - dec; finish.
Qed.


Lemma SP_step f : SAll f -> SP (S f).
Proof.
  unfold SP. intros IH; use_all IH; intros fn s x s1 H.
  rewrite prefixFn_S in H |- *.
  repeat match goal with
  | H : (if String.eqb fn ?c then _ else _) = ROk _ _ |- _ =>
      destruct (String.eqb fn c); [solve [dec; finish]|]
  end.
  discriminate H.
Qed.

Lemma sim_all : forall f, SAll f.
Proof.
  induction f as [|f IH].
  - unfold SAll. repeat (match goal with |- _ /\ _ => split end);
      unfold SE, SL, SP, SI, SM, SG, SIf, SB, SBL, SS, SEL, SELL, SML; intros; discriminate.
  - unfold SAll. repeat (match goal with |- _ /\ _ => split end).
    + apply SE_step, IH. + apply SL_step, IH. + apply SP_step, IH. + apply SI_step, IH.
    + apply SM_step, IH. + apply SG_step, IH. + apply SIf_step, IH. + apply SB_step, IH.
    + apply SBL_step, IH. + apply SS_step, IH. + apply SEL_step, IH. + apply SELL_step, IH.
    + apply SML_step, IH.
Qed.
End Main.

(* ---------- whole programs ---------- *)
Local Transparent dirty fs ft fp nextToken set_cont add_err curIs peekIs.
Section Program.
Variable conv : numconv.

Lemma sim_programLoop f : forall acc s l s1,
  programLoop conv f acc s = ROk l s1 ->
  le s s1 /\ (dirty s1 = false -> programLoop conv f (fl acc) (fs s) = ROk (fl l) (fs s1)).
Proof.
  induction f as [|f IH]; intros acc s l s1 H; [discriminate|].
  cbn [programLoop] in *. rewrite (curIs_fs_eof s), (curIs_fs_eol s), orb_false_r.
  destruct (sim_all conv f) as (_ & _ & _ & _ & _ & _ & _ & _ & _ & HS & _).
  destruct (curIs s token_EOF), (curIs s token_EOL); cbn [orb] in *;
    try (injection H as <- <-; split; [apply le_refl|reflexivity]).
  destruct (parseStatement conv f s) as [st s2| |] eqn:E; try discriminate.
  destruct (HS _ _ _ E) as [L1 S1].
  destruct st as [n|].
  - destruct (IH _ _ _ _ H) as [L2 S2]. apply le_next_l in L2.
    split; [eapply le_trans; eassumption|]. intros Hc.
    rewrite (S1 (dirty_false_le _ _ L2 Hc)). cbn [option_map].
    rewrite fs_next. specialize (S2 Hc). rewrite map_app in S2. exact S2.
  - injection H as <- <-. split; [exact L1|]. intros Hc. rewrite (S1 Hc). reflexivity.
Qed.

Lemma fs_init toks :
  fs (init_state (mkPtok (mkTok token_EOL []) false false) toks)
  = init_state (mkPtok (mkTok token_EOF []) false false) (map fp toks).
Proof. unfold init_state. rewrite <- !fs_next. reflexivity. Qed.

(* A clean line-mode parse of a token list is reproduced by the file-mode parse of the same list with
   the end-of-line marker renamed: same tree (up to that renaming), no error, no continuation. *)
Theorem linemode_parse_sim fuel toks r :
  parse_program conv fuel token_EOL toks = POk r -> clean_result r = true ->
  parse_program conv fuel token_EOF (map fp toks)
  = POk (mkPres (fl (pr_tree r)) [] false (pr_all_lexed r)).
Proof.
  unfold parse_program. intros H Hc.
  destruct (programLoop conv fuel [] _) as [l s1| |] eqn:E; try discriminate.
  injection H as <-. unfold clean_result in Hc. cbn [pr_errs pr_cont pr_tree pr_all_lexed] in *.
  assert (He : ps_errs s1 = []).
  { destruct (ps_errs s1) as [|e es]; [reflexivity|]. cbn [rev] in Hc.
    destruct (rev es ++ [e]) eqn:X; [apply app_eq_nil in X as [_ X]; discriminate X|discriminate Hc]. }
  rewrite He in Hc. cbn [rev] in Hc. apply negb_true_iff in Hc.
  assert (Hd : dirty s1 = false) by (unfold dirty; now rewrite He).
  destruct (sim_programLoop _ _ _ _ _ E) as [_ S]. specialize (S Hd). cbn [map] in S.
  rewrite <- fs_init. rewrite S. f_equal.
  transitivity (mkPres (fl l) (rev (ps_errs s1)) (ps_cont s1) (match map fp (ps_rest s1) with [] => true | _ => false end));
    [reflexivity|]. rewrite He, Hc. cbn [rev]. destruct (ps_rest s1); reflexivity.
Qed.
End Program.
