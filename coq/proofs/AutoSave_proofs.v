(* Lemmas for C18 (auto-save is crash-atomic) about coq/model/AutoSave.v.
   Part T: the skeleton generated from /repo equals the one the model is written for (named obligations).
   Part M: crash / fault behaviour of the step model. *)
From Coq Require Import List NArith ZArith Bool String Lia Arith.
From GrolGen Require Import Gen_AutoSave.
From GrolModel Require Import AutoSave.
Import ListNotations.

(* ================================================================ T: generated skeleton = modelled skeleton *)
Lemma skeleton_matches : autosave_skeleton = model_skeleton.
Proof. reflexivity. Qed.

Lemma prelude_matches : autosave_prelude = model_prelude.
Proof. reflexivity. Qed.

Lemma updatenumset_matches : updatenumset_body = model_updatenumset.
Proof. reflexivity. Qed.

Lemma state_file_matches : autosave_state_file = dot_gr.
Proof. reflexivity. Qed.

(* State.SaveGlobals forwards to the environment, which writes with one Fprintf (= one Write) per binding *)
Lemma saveglobals_forwards :
  state_saveglobals_body = ["result0 = s.env.SaveGlobals(ARG0, s.MaxValueLen)"%string].
Proof. reflexivity. Qed.

Lemma saveglobals_one_write_per_binding :
  saveglobals_writes =
  ["writes outside the loop over the bindings = 0"%string;
   "max writes on a path through one iteration = 1"%string;
   "writes whose error is not checked and returned right away = 0"%string;
   "writes not ending in a newline = 0"%string;
   "other uses of the writer = 0"%string].
Proof. reflexivity. Qed.

(* the temporary file is created in the working directory, i.e. in the directory of the state file *)
Lemma skeleton_temp_in_cwd : skeleton_temp autosave_skeleton = Some ([46]%N, model_pattern).
Proof. reflexivity. Qed.

Lemma state_file_in_cwd : existsb (N.eqb 47) autosave_state_file = false.   (* no '/' *)
Proof. reflexivity. Qed.

Lemma pattern_excludes_state_file : pattern_excludes model_pattern autosave_state_file = true.
Proof. vm_compute. reflexivity. Qed.

(* ================================================================ names *)
Lemma name_eqb_refl : forall a, name_eqb a a = true.
Proof. induction a as [|x a IH]; simpl; auto. rewrite N.eqb_refl. exact IH. Qed.

Lemma name_eqb_eq : forall a b, name_eqb a b = true -> a = b.
Proof.
  induction a as [|x a IH]; destruct b as [|y b]; simpl; intro H; try discriminate; auto.
  apply andb_true_iff in H. destruct H as [H1 H2]. apply N.eqb_eq in H1. subst. f_equal. auto.
Qed.

Lemma name_eqb_neq : forall a b, a <> b -> name_eqb a b = false.
Proof.
  intros a b H. destruct (name_eqb a b) eqn:E; auto. apply name_eqb_eq in E. contradiction.
Qed.

(* a name produced from the pattern: prefix ++ random ++ suffix *)
Definition temp_name_ok (pattern tmp : list N) : Prop :=
  exists r, tmp = fst (pattern_parts pattern) ++ r ++ snd (pattern_parts pattern).

Lemma pattern_excludes_sound : forall pattern state,
  pattern_excludes pattern state = true -> forall tmp, temp_name_ok pattern tmp -> tmp <> state.
Proof.
  unfold pattern_excludes, temp_name_ok. intros pattern state H tmp [r Hr] E.
  destruct (pattern_parts pattern) as [pre suf]. simpl in Hr.
  apply Nat.ltb_lt in H. subst tmp. rewrite <- E in H. rewrite !app_length in H. lia.
Qed.

Lemma temp_never_state_file_lemma : forall tmp, temp_name_ok model_pattern tmp -> tmp <> autosave_state_file.
Proof. exact (pattern_excludes_sound _ _ pattern_excludes_state_file). Qed.

(* ================================================================ file system *)
Lemma get_remove_same : forall f n, fs_get (fs_remove f n) n = None.
Proof.
  induction f as [|[k c] f IH]; intro n; simpl; auto.
  destruct (name_eqb k n) eqn:E; simpl; auto. rewrite E. auto.
Qed.

Lemma get_remove_other : forall f n m, n <> m -> fs_get (fs_remove f n) m = fs_get f m.
Proof.
  induction f as [|[k c] f IH]; intros n m H; simpl; auto.
  destruct (name_eqb k n) eqn:E.
  - apply name_eqb_eq in E. subst k. rewrite (name_eqb_neq _ _ H). auto.
  - simpl. destruct (name_eqb k m); auto.
Qed.

Lemma get_set_same : forall f n c, fs_get (fs_set f n c) n = Some c.
Proof. intros. unfold fs_set. simpl. rewrite name_eqb_refl. reflexivity. Qed.

Lemma get_set_other : forall f n c m, n <> m -> fs_get (fs_set f n c) m = fs_get f m.
Proof. intros. unfold fs_set. simpl. rewrite (name_eqb_neq _ _ H). apply get_remove_other. exact H. Qed.

(* ================================================================ shape of the compiled program *)
Lemma compile_model : forall tmp bs,
  compile tmp None bs model_skeleton =
  (StCreateTemp, []) :: map (fun b => (StWrite b, [])) bs ++ [(StRename tmp dot_gr, [])].
Proof. intros. unfold model_skeleton. simpl. rewrite map_map. reflexivity. Qed.

(* ================================================================ crash effect assumptions *)
Definition crash_effect : Type := fname -> step -> nat -> st -> st.

(* bytes handed to write(2) before the process died are in the file, as a prefix of that write *)
Definition ce_write_prefix (ce : crash_effect) : Prop :=
  forall tmp b j m, ce tmp (StWrite b) j m = exec_or_skip tmp (StWrite (firstn j b)) m.
(* every other call (creation of the temporary file, rename, ...) is atomic with respect to process death *)
Definition ce_atomic (ce : crash_effect) : Prop :=
  forall tmp s j m, (forall b, s <> StWrite b) -> ce tmp s j m = m \/ ce tmp s j m = exec_or_skip tmp s m.

Lemma torn_step_write_prefix : ce_write_prefix torn_step.
Proof. intros tmp b j m. reflexivity. Qed.

Lemma torn_step_atomic : ce_atomic torn_step.
Proof. intros tmp s j m H. destruct s; simpl; auto. exfalso. exact (H b eq_refl). Qed.

(* ================================================================ invariant while the temporary file is open *)
Definition Inv (fs0 : fs) (tmp : fname) (c : bytes) (m : st) : Prop :=
  s_h m = HOpen tmp /\ fs_get (s_fs m) tmp = Some c /\ forall n, n <> tmp -> fs_get (s_fs m) n = fs_get fs0 n.

(* after the rename *)
Definition Done (fs0 : fs) (tmp : fname) (c : bytes) (m : st) : Prop :=
  fs_get (s_fs m) dot_gr = Some c /\ fs_get (s_fs m) tmp = None /\
  forall n, n <> tmp -> n <> dot_gr -> fs_get (s_fs m) n = fs_get fs0 n.

Lemma exec_createtemp : forall fs0 tmp, fs_get fs0 tmp = None ->
  exists m', exec_step tmp StCreateTemp (init fs0) = Some m' /\ Inv fs0 tmp [] m'.
Proof.
  intros fs0 tmp H. unfold exec_step, init. simpl. rewrite H. eexists. split; [reflexivity|].
  unfold Inv. cbn [s_fs s_h]. split; [reflexivity|]. split.
  - apply get_set_same.
  - intros n Hn. apply get_set_other. auto.
Qed.

Lemma exec_write_inv : forall fs0 tmp c m b, Inv fs0 tmp c m ->
  exists m', exec_step tmp (StWrite b) m = Some m' /\ Inv fs0 tmp (c ++ b) m'.
Proof.
  intros fs0 tmp c m b (Hh & Hc & Hf). unfold exec_step. rewrite Hh, Hc. eexists. split; [reflexivity|].
  unfold Inv. cbn [s_fs s_h]. split; [reflexivity|]. split.
  - apply get_set_same.
  - intros n Hn. rewrite get_set_other by auto. auto.
Qed.

Lemma exec_rename_inv : forall fs0 tmp c m, tmp <> dot_gr -> Inv fs0 tmp c m ->
  exists m', exec_step tmp (StRename tmp dot_gr) m = Some m' /\ Done fs0 tmp c m'.
Proof.
  intros fs0 tmp c m Hne (Hh & Hc & Hf). unfold exec_step. rewrite Hc. rewrite (name_eqb_neq _ _ Hne).
  eexists. split; [reflexivity|]. unfold Done. cbn [s_fs s_h]. split; [|split].
  - apply get_set_same.
  - rewrite get_set_other by auto. apply get_remove_same.
  - intros n H1 H2. rewrite get_set_other by auto. rewrite get_remove_other by auto. auto.
Qed.

Lemma skip_write_inv : forall fs0 tmp c m b, Inv fs0 tmp c m -> Inv fs0 tmp (c ++ b) (exec_or_skip tmp (StWrite b) m).
Proof.
  intros. destruct (exec_write_inv fs0 tmp c m b H) as (m' & E & I). unfold exec_or_skip. rewrite E. exact I.
Qed.

Lemma skip_rename_inv : forall fs0 tmp c m, tmp <> dot_gr -> Inv fs0 tmp c m ->
  Done fs0 tmp c (exec_or_skip tmp (StRename tmp dot_gr) m).
Proof.
  intros. destruct (exec_rename_inv fs0 tmp c m H H0) as (m' & E & I). unfold exec_or_skip. rewrite E. exact I.
Qed.

Lemma rename_not_write : forall a b x, StRename a b <> StWrite x.
Proof. intros. discriminate. Qed.

Lemma createtemp_not_write : forall x, StCreateTemp <> StWrite x.
Proof. intros. discriminate. Qed.

(* ================================================================ crash anywhere in  writes ++ [rename] *)
Lemma run_writes_rename : forall ce, ce_write_prefix ce -> ce_atomic ce ->
  forall fs0 tmp, tmp <> dot_gr ->
  forall bs c m k torn, Inv fs0 tmp c m ->
  let m' := run_steps ce tmp (map StWrite bs ++ [StRename tmp dot_gr]) m k torn in
  (k < List.length bs -> exists c' rest, Inv fs0 tmp c' m' /\ c ++ List.concat bs = c' ++ rest) /\
  (k = List.length bs -> Inv fs0 tmp (c ++ List.concat bs) m' \/ Done fs0 tmp (c ++ List.concat bs) m') /\
  (List.length bs < k -> Done fs0 tmp (c ++ List.concat bs) m').
Proof.
  intros ce Hw Ha fs0 tmp Hne. induction bs as [|b bs IH]; intros c m k torn HI; simpl.
  - rewrite app_nil_r. split; [lia|]. split.
    + intros ->. simpl.
      destruct (Ha tmp (StRename tmp dot_gr) torn m (rename_not_write _ _)) as [E|E]; rewrite E.
      * left. exact HI.
      * right. apply skip_rename_inv; auto.
    + intro Hk. destruct k as [|k]; [lia|]. simpl. apply skip_rename_inv; auto.
  - destruct k as [|k].
    + split; [|split; intro; lia]. intros _. rewrite Hw.
      exists (c ++ firstn torn b), (skipn torn b ++ List.concat bs). split.
      * apply skip_write_inv. exact HI.
      * rewrite <- app_assoc. f_equal. rewrite app_assoc. rewrite firstn_skipn. reflexivity.
    + pose proof (skip_write_inv fs0 tmp c m b HI) as HI'.
      destruct (IH (c ++ b) (exec_or_skip tmp (StWrite b) m) k torn HI') as (H1 & H2 & H3).
      rewrite <- app_assoc in H1, H2, H3.
      split; [|split].
      * intro Hk. apply H1. lia.
      * intro Hk. apply H2. lia.
      * intro Hk. apply H3. lia.
Qed.

(* crash anywhere in a list of writes (no rename follows: the shape of every failed save) *)
Lemma run_writes_only : forall ce, ce_write_prefix ce ->
  forall fs0 tmp ws c m k torn, Inv fs0 tmp c m ->
  exists c', Inv fs0 tmp c' (run_steps ce tmp (map StWrite ws) m k torn).
Proof.
  intros ce Hw fs0 tmp. induction ws as [|w ws IH]; intros c m k torn HI; simpl.
  - exists c. exact HI.
  - destruct k as [|k].
    + rewrite Hw. eexists. apply skip_write_inv. exact HI.
    + apply (IH (c ++ w)). apply skip_write_inv. exact HI.
Qed.

(* ================================================================ the calls made by a fault-free save *)
Definition full_actions (tmp : fname) (bs : list bytes) : list step :=
  StCreateTemp :: map StWrite bs ++ [StRename tmp dot_gr].

Lemma run_prog_writes_nofault : forall fs0 tmp, tmp <> dot_gr -> forall bs c m i, Inv fs0 tmp c m ->
  run_prog tmp (map (fun b => (StWrite b, [])) bs ++ [(StRename tmp dot_gr, [])]) i NoFault m
  = (map StWrite bs ++ [StRename tmp dot_gr], false).
Proof.
  intros fs0 tmp Hne. induction bs as [|b bs IH]; intros c m i HI.
  - cbn [map app run_prog fault_here]. destruct (exec_rename_inv fs0 tmp c m Hne HI) as (m' & E & _). rewrite E. reflexivity.
  - simpl map. simpl app. cbn [run_prog fault_here].
    destruct (exec_write_inv fs0 tmp c m b HI) as (m' & E & HI'). rewrite E.
    rewrite (IH (c ++ b) m' (S i) HI'). reflexivity.
Qed.

Lemma actions_nofault : forall tmp fs0 bs, tmp <> dot_gr -> fs_get fs0 tmp = None ->
  autosave_actions tmp model_skeleton bs NoFault fs0 = (full_actions tmp bs, false).
Proof.
  intros tmp fs0 bs Hne Hf. unfold autosave_actions. rewrite compile_model.
  cbn [run_prog fault_here]. destruct (exec_createtemp fs0 tmp Hf) as (m' & E & HI). rewrite E.
  rewrite (run_prog_writes_nofault fs0 tmp Hne bs [] m' 1 HI). reflexivity.
Qed.

(* ================================================================ the calls made by a save in which one call fails *)
Lemma run_prog_writes_fault : forall fs0 tmp, tmp <> dot_gr -> forall bs c m i j p, Inv fs0 tmp c m ->
  i <= j -> j - i < List.length bs + 1 ->
  exists ws, run_prog tmp (map (fun b => (StWrite b, [])) bs ++ [(StRename tmp dot_gr, [])]) i (FaultAt j p) m
             = (map StWrite ws, true).
Proof.
  intros fs0 tmp Hne. induction bs as [|b bs IH]; intros c m i j p HI Hij Hlen.
  - simpl in Hlen. assert (i = j) by lia. subst j. simpl. rewrite Nat.eqb_refl. exists []. reflexivity.
  - simpl map. simpl app. cbn [run_prog fault_here].
    destruct (Nat.eqb i j) eqn:E.
    + exists [firstn p b]. reflexivity.
    + apply Nat.eqb_neq in E.
      destruct (exec_write_inv fs0 tmp c m b HI) as (m' & Ew & HI'). rewrite Ew.
      simpl in Hlen.
      destruct (IH (c ++ b) m' (S i) j p HI') as (ws & Hws); [lia|lia|].
      rewrite Hws. exists (b :: ws). reflexivity.
Qed.

Lemma actions_fault : forall tmp fs0 bs i p, tmp <> dot_gr -> fs_get fs0 tmp = None ->
  i < List.length bs + 2 ->
  exists ws, autosave_actions tmp model_skeleton bs (FaultAt i p) fs0
             = (match i with O => [] | S _ => StCreateTemp :: map StWrite ws end, true).
Proof.
  intros tmp fs0 bs i p Hne Hf Hi. unfold autosave_actions. rewrite compile_model.
  destruct i as [|i].
  - exists []. reflexivity.
  - cbn [run_prog fault_here Nat.eqb].
    destruct (exec_createtemp fs0 tmp Hf) as (m' & E & HI). rewrite E.
    destruct (run_prog_writes_fault fs0 tmp Hne bs [] m' 1 (S i) p HI) as (ws & Hws); [lia|lia|].
    rewrite Hws. exists ws. reflexivity.
Qed.

(* ================================================================ main lemmas (about model_skeleton) *)
Definition is_prefix_of (c new : bytes) : Prop := exists rest, new = c ++ rest.

Lemma crash_atomic_model : forall ce, ce_write_prefix ce -> ce_atomic ce ->
  forall tmp fs0, tmp <> dot_gr -> fs_get fs0 tmp = None ->
  forall bs k torn,
  let fs' := after ce tmp model_skeleton bs NoFault k torn fs0 in
  let old := fs_get fs0 dot_gr in
  let new := List.concat bs in
  (fs_get fs' dot_gr = old \/ fs_get fs' dot_gr = Some new) /\
  (k <= List.length bs -> fs_get fs' dot_gr = old) /\
  (List.length bs + 2 <= k -> fs_get fs' dot_gr = Some new /\ fs_get fs' tmp = None) /\
  (forall n, n <> tmp -> n <> dot_gr -> fs_get fs' n = fs_get fs0 n) /\
  (forall c, fs_get fs' tmp = Some c -> is_prefix_of c new).
Proof.
  intros ce Hw Ha tmp fs0 Hne Hf bs k torn. unfold after. rewrite (actions_nofault tmp fs0 bs Hne Hf).
  cbn [fst]. unfold full_actions.
  assert (Pre : forall m c, Inv fs0 tmp c m -> is_prefix_of c (List.concat bs) ->
            fs_get (s_fs m) dot_gr = fs_get fs0 dot_gr /\
            (forall n, n <> tmp -> n <> dot_gr -> fs_get (s_fs m) n = fs_get fs0 n) /\
            (forall c0, fs_get (s_fs m) tmp = Some c0 -> is_prefix_of c0 (List.concat bs))).
  { intros m c (Hh & Hc & Hfr) Hp. split; [|split].
    - apply Hfr. auto.
    - intros n H1 _. apply Hfr. auto.
    - intros c0 H0. rewrite Hc in H0. inversion H0. subst. exact Hp. }
  assert (Post : forall m, Done fs0 tmp (List.concat bs) m ->
            fs_get (s_fs m) dot_gr = Some (List.concat bs) /\ fs_get (s_fs m) tmp = None /\
            (forall n, n <> tmp -> n <> dot_gr -> fs_get (s_fs m) n = fs_get fs0 n)).
  { intros m (H1 & H2 & H3). auto. }
  destruct k as [|k].
  - (* died before or while creating the temporary file *)
    cbn [run_steps].
    destruct (Ha tmp StCreateTemp torn (init fs0) createtemp_not_write) as [E|E]; rewrite E.
    + simpl. split; [left; reflexivity|]. split; [reflexivity|]. split; [lia|]. split; [reflexivity|].
      intros c Hc. rewrite Hf in Hc. discriminate.
    + destruct (exec_createtemp fs0 tmp Hf) as (m' & E' & HI). unfold exec_or_skip. rewrite E'.
      destruct (Pre m' [] HI) as (P1 & P2 & P3); [exists (List.concat bs); reflexivity|].
      split; [left; exact P1|]. split; [intros _; exact P1|]. split; [lia|]. split; assumption.
  - cbn [run_steps].
    destruct (exec_createtemp fs0 tmp Hf) as (m' & E' & HI).
    replace (exec_or_skip tmp StCreateTemp (init fs0)) with m' by (unfold exec_or_skip; rewrite E'; reflexivity).
    destruct (run_writes_rename ce Hw Ha fs0 tmp Hne bs [] m' k torn HI) as (H1 & H2 & H3).
    simpl app in H1, H2, H3.
    set (mf := run_steps ce tmp (map StWrite bs ++ [StRename tmp dot_gr]) m' k torn) in *.
    destruct (lt_eq_lt_dec k (List.length bs)) as [[Hlt|Heq]|Hgt].
    + destruct (H1 Hlt) as (c' & rest & HI' & Hc').
      destruct (Pre mf c' HI') as (P1 & P2 & P3); [exists rest; exact Hc'|].
      split; [left; exact P1|]. split; [intros _; exact P1|]. split; [lia|]. split; assumption.
    + destruct (H2 Heq) as [HI'|HD].
      * destruct (Pre mf (List.concat bs) HI') as (P1 & P2 & P3); [exists []; rewrite app_nil_r; reflexivity|].
        split; [left; exact P1|]. split; [lia|]. split; [lia|]. split; assumption.
      * destruct (Post mf HD) as (P1 & P2 & P3).
        split; [right; exact P1|]. split; [lia|]. split; [lia|]. split; [exact P3|].
        intros c Hc. rewrite P2 in Hc. discriminate.
    + destruct (Post mf (H3 Hgt)) as (P1 & P2 & P3).
      split; [right; exact P1|]. split; [lia|]. split; [intros _; split; assumption|]. split; [exact P3|].
      intros c Hc. rewrite P2 in Hc. discriminate.
Qed.

Lemma fault_keeps_old_model : forall ce, ce_write_prefix ce -> ce_atomic ce ->
  forall tmp fs0, tmp <> dot_gr -> fs_get fs0 tmp = None ->
  forall bs i partial k torn, i < List.length bs + 2 ->
  let fs' := after ce tmp model_skeleton bs (FaultAt i partial) k torn fs0 in
  snd (autosave_actions tmp model_skeleton bs (FaultAt i partial) fs0) = true /\
  fs_get fs' dot_gr = fs_get fs0 dot_gr /\
  (forall n, n <> tmp -> fs_get fs' n = fs_get fs0 n).
Proof.
  intros ce Hw Ha tmp fs0 Hne Hf bs i partial k torn Hi. unfold after.
  destruct (actions_fault tmp fs0 bs i partial Hne Hf Hi) as (ws & E). rewrite E. cbn [fst snd].
  split; [reflexivity|].
  assert (G : forall m c, Inv fs0 tmp c m ->
            fs_get (s_fs m) dot_gr = fs_get fs0 dot_gr /\ (forall n, n <> tmp -> fs_get (s_fs m) n = fs_get fs0 n)).
  { intros m c (_ & _ & Hfr). split; [apply Hfr; auto|exact Hfr]. }
  destruct i as [|i].
  - simpl. auto.
  - destruct k as [|k]; cbn [run_steps].
    + destruct (Ha tmp StCreateTemp torn (init fs0) createtemp_not_write) as [E0|E0]; rewrite E0.
      * simpl. auto.
      * destruct (exec_createtemp fs0 tmp Hf) as (m' & E' & HI). unfold exec_or_skip. rewrite E'. exact (G m' [] HI).
    + destruct (exec_createtemp fs0 tmp Hf) as (m' & E' & HI).
    replace (exec_or_skip tmp StCreateTemp (init fs0)) with m' by (unfold exec_or_skip; rewrite E'; reflexivity).
      destruct (run_writes_only ce Hw fs0 tmp ws [] m' k torn HI) as (c' & HI').
      exact (G _ c' HI').
Qed.

(* ================================================================ transported to the generated skeleton *)
Definition autosave_temp_pattern : list N :=
  match skeleton_temp autosave_skeleton with Some (_, p) => p | None => [] end.

Lemma temp_pattern_is_model : autosave_temp_pattern = model_pattern.
Proof. reflexivity. Qed.

Lemma temp_never_state_file_gen : forall tmp, temp_name_ok autosave_temp_pattern tmp -> tmp <> autosave_state_file.
Proof. rewrite temp_pattern_is_model. exact temp_never_state_file_lemma. Qed.

Lemma crash_atomic_gen : forall ce : crash_effect, ce_write_prefix ce -> ce_atomic ce ->
  forall tmp fs0, temp_name_ok autosave_temp_pattern tmp -> fs_get fs0 tmp = None ->
  forall bs k torn,
  let fs' := after ce tmp autosave_skeleton bs NoFault k torn fs0 in
  let old := fs_get fs0 autosave_state_file in
  let new := List.concat bs in
  (fs_get fs' autosave_state_file = old \/ fs_get fs' autosave_state_file = Some new) /\
  (k <= List.length bs -> fs_get fs' autosave_state_file = old) /\
  (List.length bs + 2 <= k -> fs_get fs' autosave_state_file = Some new /\ fs_get fs' tmp = None) /\
  (forall n, n <> tmp -> n <> autosave_state_file -> fs_get fs' n = fs_get fs0 n) /\
  (forall c, fs_get fs' tmp = Some c -> is_prefix_of c new).
Proof.
  intros ce Hw Ha tmp fs0 Ht Hf. rewrite skeleton_matches, state_file_matches.
  apply crash_atomic_model; auto. rewrite <- state_file_matches. apply temp_never_state_file_gen. exact Ht.
Qed.

Lemma fault_keeps_old_gen : forall ce : crash_effect, ce_write_prefix ce -> ce_atomic ce ->
  forall tmp fs0, temp_name_ok autosave_temp_pattern tmp -> fs_get fs0 tmp = None ->
  forall bs i partial k torn, i < List.length bs + 2 ->
  let fs' := after ce tmp autosave_skeleton bs (FaultAt i partial) k torn fs0 in
  snd (autosave_actions tmp autosave_skeleton bs (FaultAt i partial) fs0) = true /\
  fs_get fs' autosave_state_file = fs_get fs0 autosave_state_file /\
  (forall n, n <> tmp -> fs_get fs' n = fs_get fs0 n).
Proof.
  intros ce Hw Ha tmp fs0 Ht Hf. rewrite skeleton_matches, state_file_matches.
  apply fault_keeps_old_model; auto. rewrite <- state_file_matches. apply temp_never_state_file_gen. exact Ht.
Qed.

(* ================================================================ the "only if changed" prelude *)
Lemma skip_when_unchanged_lemma : forall tmp sk bs f fs0 enabled last cur,
  enabled = false \/ cur = last ->
  fst (autosave_session tmp sk bs f fs0 enabled last cur) = ([], false) /\
  forall ce k torn, session_after ce tmp sk bs f k torn fs0 enabled last cur = fs0.
Proof.
  intros tmp sk bs f fs0 enabled last cur H.
  assert (E : fst (autosave_session tmp sk bs f fs0 enabled last cur) = ([], false)).
  { unfold autosave_session. destruct H as [-> | ->]; simpl; auto.
    destruct (negb enabled); auto. rewrite Z.sub_diag. reflexivity. }
  split; [exact E|]. intros. unfold session_after. rewrite E. reflexivity.
Qed.

(* a changed state is saved (the prelude falls through to the save path), and lastNumSet is advanced
   whether or not the save succeeds *)
Lemma changed_is_saved : forall tmp sk bs f fs0 last cur, cur <> last ->
  autosave_session tmp sk bs f fs0 true last cur = (autosave_actions tmp sk bs f fs0, cur).
Proof.
  intros. unfold autosave_session. simpl. destruct (Z.eqb_spec (cur - last) 0); [lia|reflexivity].
Qed.

(* consequence (behaviour of the code as it is): a save that failed is not retried by the next AutoSave
   unless another global was set in between *)
Lemma failed_save_not_retried : forall tmp sk bs f fs0 last cur,
  cur <> last ->
  let last' := snd (autosave_session tmp sk bs f fs0 true last cur) in
  forall f2 fs1, fst (autosave_session tmp sk bs f2 fs1 true last' cur) = ([], false).
Proof.
  intros tmp sk bs f fs0 last cur H last' f2 fs1. subst last'. rewrite (changed_is_saved tmp sk bs f fs0 last cur H). cbn [snd].
  apply skip_when_unchanged_lemma. right. reflexivity.
Qed.

(* ================================================================ the runner's shortcut is sound *)
Lemma write_candidates_sound : forall acts k acc len kt,
  In kt (write_candidates acts k acc len) -> In kt (crash_points_from acts k).
Proof.
  induction acts as [|a acts IH]; intros k acc len kt H.
  - destruct H.
  - destruct a; cbn [write_candidates crash_points_from app] in *;
      try (right; eapply IH; exact H).
    apply in_app_or in H. apply in_or_app. destruct H as [H|H].
    + left. destruct len as [l|].
      * destruct (Nat.leb acc l && Nat.leb l (acc + List.length b)) eqn:E; [|contradiction].
        apply andb_true_iff in E. destruct E as [E1 E2]. apply Nat.leb_le in E1. apply Nat.leb_le in E2.
        destruct H as [H|[]]. subst kt. apply (in_map (fun t => (k, t))). apply in_seq. lia.
      * destruct H as [H|[]]. subst kt. apply (in_map (fun t => (k, t))). apply in_seq. lia.
    + right. eapply IH. exact H.
Qed.

Lemma nonwrite_candidates_sound : forall acts k kt,
  In kt (nonwrite_candidates acts k) -> In kt (crash_points_from acts k).
Proof.
  induction acts as [|a acts IH]; intros k kt H.
  - exact H.
  - destruct a; cbn [nonwrite_candidates crash_points_from app] in *;
      try (destruct H as [H|H]; [left; exact H | right; apply IH; exact H]).
    apply in_or_app. right. apply IH. exact H.
Qed.

Lemma crash_candidates_sound : forall acts len kt,
  In kt (crash_candidates acts len) -> In kt (crash_points_from acts 0).
Proof.
  unfold crash_candidates. intros acts len kt H. apply in_app_or in H. destruct H as [H|H].
  - apply nonwrite_candidates_sound. exact H.
  - eapply write_candidates_sound. exact H.
Qed.

Lemma crash_possible_fast_sound : forall tmp state sk bs fs0 o,
  crash_possible_fast tmp state sk bs fs0 o = true -> crash_possible tmp state sk bs fs0 o = true.
Proof.
  unfold crash_possible_fast, crash_possible. intros tmp state sk bs fs0 o H.
  apply existsb_exists in H. destruct H as (kt & Hin & Hp). apply existsb_exists. exists kt. split; [|exact Hp].
  eapply crash_candidates_sound. exact Hin.
Qed.

(* ================================================================ sensitivity: other skeletons are NOT crash-atomic
   (the interpreter is generic; these show that the obligations above are what carries the property) *)
Definition tmpx : fname := [46; 103; 114; 111; 108; 55; 46; 116; 109; 112]%N.   (* ".grol7.tmp" *)

Lemma tmpx_ok : temp_name_ok autosave_temp_pattern tmpx.
Proof. exists [55%N]. reflexivity. Qed.

Definition sk_direct : list sstep :=            (* write straight into the state file *)
  [mkstep (OpCreate (FConst dot_gr)) []; mkstep (OpSave FHandle) []].
Definition sk_rename_first : list sstep :=      (* rename before writing *)
  [mkstep (OpCreateTemp [46]%N model_pattern) []; mkstep (OpRename FHandle (FConst dot_gr)) []; mkstep (OpSave FHandle) []].
Definition sk_remove_first : list sstep :=      (* remove the old file, then rename *)
  [mkstep (OpCreateTemp [46]%N model_pattern) []; mkstep (OpSave FHandle) [];
   mkstep (OpRemove (FConst dot_gr)) []; mkstep (OpRename FHandle (FConst dot_gr)) []].

Definition ex_fs0 : fs := [(dot_gr, [1; 1]%N)].
Definition ex_bs : list bytes := [[2]%N; [3; 4]%N].

Example direct_write_not_atomic :
  let r := fs_get (after torn_step tmpx sk_direct ex_bs NoFault 2 0 ex_fs0) dot_gr in
  r = Some [2]%N /\ r <> fs_get ex_fs0 dot_gr /\ r <> Some (List.concat ex_bs).
Proof. vm_compute. repeat split; discriminate. Qed.

Example rename_first_not_atomic :
  let r := fs_get (after torn_step tmpx sk_rename_first ex_bs NoFault 3 1 ex_fs0) dot_gr in
  r = Some [2; 3]%N /\ r <> fs_get ex_fs0 dot_gr /\ r <> Some (List.concat ex_bs).
Proof. vm_compute. repeat split; discriminate. Qed.

Example remove_first_not_atomic :
  let r := fs_get (after torn_step tmpx sk_remove_first ex_bs NoFault 4 0 ex_fs0) dot_gr in
  r = None /\ r <> fs_get ex_fs0 dot_gr /\ r <> Some (List.concat ex_bs).
Proof. vm_compute. repeat split; discriminate. Qed.

(* and the modelled skeleton on the same data: every crash point gives old or new *)
Example model_skeleton_all_crash_points :
  forallb (fun kt => let r := fs_get (after torn_step tmpx autosave_skeleton ex_bs NoFault (fst kt) (snd kt) ex_fs0) dot_gr in
                     obytes_eqb r (Some [1; 1]%N) || obytes_eqb r (Some [2; 3; 4]%N))
          (crash_points_from (full_actions tmpx ex_bs) 0) = true.
Proof. vm_compute. reflexivity. Qed.
