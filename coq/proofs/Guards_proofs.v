(* Lemmas about model/Guards.v: the depth counter, the depth guard, cancellation. *)
From Coq Require Import List ZArith Bool Lia Arith.
From GrolModel Require Import Guards.
Import ListNotations.
Local Open Scope Z_scope.

(* ------------------------------------------------------------------ the depth counter *)
(* State.depth always equals the start value plus the number of open Eval activations, and never
   exceeds MaxDepth+1 *)
Definition depth_inv (d0 maxd : Z) (c : config) : Prop :=
  c_depth c = d0 + ve_frames (c_stack c) /\ c_depth c <= Z.max d0 (maxd + 1).

Lemma ve_frames_nonneg : forall st, 0 <= ve_frames st.
Proof. induction st as [| [ve k rest] st IH]; [ simpl; lia | cbn [ve_frames]; destruct ve; unfold b2z; lia ]. Qed.

Lemma step_preserves_inv : forall d0 maxd ca c c',
  depth_inv d0 maxd c -> step maxd ca c = inr c' -> depth_inv d0 maxd c'.
Proof.
  intros d0 maxd ca [m st d v] c' [Hd Hle] H. unfold step in H.
  cbn [c_depth c_stack c_mode c_visits] in *.
  destruct m as [[ve k cs] | r].
  - destruct (ve && (maxd <? d)) eqn:Eg; [ discriminate |].
    destruct (cancelled ca v).
    + inversion H. subst c'. split; cbn [c_depth c_stack]; assumption.
    + inversion H. subst c'. unfold depth_inv. cbn [c_depth c_stack ve_frames]. split; [ lia |].
      destruct ve; unfold b2z; [| lia ].
      rewrite andb_true_l in Eg. apply Z.ltb_ge in Eg. lia.
  - destruct st as [| [ve k rest] st]; [ discriminate |].
    pose proof (ve_frames_nonneg st) as Hnn.
    cbn [ve_frames] in Hd.
    assert (Hpop : forall r', depth_inv d0 maxd (mk_config (Next r') st (d - b2z ve) v)).
    { intro r'. unfold depth_inv; cbn [c_depth c_stack]. destruct ve; unfold b2z in *; split; lia. }
    assert (Hnext : forall ch rest', depth_inv d0 maxd (mk_config (Enter ch) (F ve k rest' :: st) d v)).
    { intros. unfold depth_inv; cbn [c_depth c_stack ve_frames]. split; lia. }
    destruct k, r, rest; inversion H; subst c'; try apply Hpop; try apply Hnext.
Qed.

Lemma run_preserves_inv : forall d0 maxd ca n c h c',
  depth_inv d0 maxd c -> run maxd ca n c = (h, c') -> depth_inv d0 maxd c'.
Proof.
  induction n as [| n IH]; intros c h c' Hi H; simpl in H.
  - inversion H. subst. exact Hi.
  - destruct (step maxd ca c) as [hh | c1] eqn:E.
    + inversion H. subst. exact Hi.
    + eapply IH; [ eapply step_preserves_inv; eassumption | exact H ].
Qed.

Lemma init_inv : forall d0 maxd t, depth_inv d0 maxd (init d0 t).
Proof. intros. unfold depth_inv, init. simpl. lia. Qed.

Lemma depth_invariant : forall maxd ca d0 t n h c,
  0 <= d0 <= maxd + 1 ->
  run maxd ca n (init d0 t) = (h, c) ->
  0 <= c_depth c <= maxd + 1 /\ c_depth c = d0 + ve_frames (c_stack c).
Proof.
  intros maxd ca d0 t n h c Hd0 H.
  destruct (run_preserves_inv d0 maxd ca n _ _ _ (init_inv d0 maxd t) H) as [He Hle].
  pose proof (ve_frames_nonneg (c_stack c)). split; [ lia | exact He ].
Qed.

(* the number of nested Eval activations never exceeds MaxDepth + 1 - d0, whatever the program *)
Lemma eval_nesting_bounded : forall maxd ca d0 t n h c,
  0 <= d0 <= maxd + 1 ->
  run maxd ca n (init d0 t) = (h, c) -> ve_frames (c_stack c) <= maxd + 1 - d0.
Proof.
  intros. destruct (depth_invariant maxd ca d0 t n h c) as [? ?]; [ assumption | assumption | lia ].
Qed.

(* entering Eval with MaxDepth+1 activations already open is the guard, and nothing else is *)
Lemma step_guard_iff : forall maxd ca c,
  step maxd ca c = inl GuardDepth <->
  exists k cs, c_mode c = Enter (T true k cs) /\ maxd < c_depth c.
Proof.
  intros maxd ca [m st d v]. unfold step. simpl. split.
  - destruct m as [[ve k cs] | r].
    + destruct (ve && (maxd <? d)) eqn:E.
      * intros _. apply andb_true_iff in E. destruct E as [E1 E2]. subst ve.
        apply Z.ltb_lt in E2. exists k, cs. split; [ reflexivity | exact E2 ].
      * destruct (cancelled ca v); discriminate.
    + destruct st as [| [ve k rest] st]; [ discriminate |].
      destruct k, r, rest; discriminate.
  - intros [k [cs [Hm Hd]]]. subst m. simpl.
    assert (E : maxd <? d = true) by (apply Z.ltb_lt; exact Hd). rewrite E. reflexivity.
Qed.

Lemma depth_exceeded_is_guard : forall maxd ca d0 t n c k cs,
  0 <= d0 <= maxd + 1 ->
  run maxd ca n (init d0 t) = (None, c) ->
  c_mode c = Enter (T true k cs) ->
  maxd + 1 - d0 <= ve_frames (c_stack c) ->
  step maxd ca c = inl GuardDepth.
Proof.
  intros maxd ca d0 t n c k cs Hd0 H Hm Hv.
  destruct (depth_invariant maxd ca d0 t n None c Hd0 H) as [_ He].
  apply step_guard_iff. exists k, cs. split; [ exact Hm | lia ].
Qed.

(* ------------------------------------------------------------------ cancellation *)
Lemma cancel_is_immediate : forall maxd ca c t,
  c_mode c = Enter t -> cancelled ca (c_visits c) = true ->
  step maxd ca c = inl GuardDepth
  \/ step maxd ca c = inr (mk_config (Next RErr) (c_stack c) (c_depth c) (S (c_visits c))).
Proof.
  intros maxd ca [m st d v] t Hm Hc. simpl in *. subst m. destruct t as [ve k cs].
  unfold step. simpl. destruct (ve && (maxd <? d)); [ left; reflexivity |].
  rewrite Hc. right. reflexivity.
Qed.

Lemma cancelled_mono : forall ca v v', (v <= v')%nat -> cancelled ca v = true -> cancelled ca v' = true.
Proof.
  intros [c |] v v' Hle H; simpl in *; [| discriminate ].
  apply Nat.leb_le in H. apply Nat.leb_le. lia.
Qed.

(* once cancelled, a step never increases visits + weight *)
Lemma step_weight : forall maxd ca c c',
  cancelled ca (c_visits c) = true -> step maxd ca c = inr c' ->
  (c_visits c' + weight c' <= c_visits c + weight c)%nat /\ (c_visits c <= c_visits c')%nat.
Proof.
  intros maxd ca [m st d v] c' Hc H. unfold step in H. simpl in *.
  destruct m as [[ve k cs] | r].
  - destruct (ve && (maxd <? d)); [ discriminate |]. rewrite Hc in H.
    inversion H. subst c'. unfold weight. simpl. lia.
  - destruct st as [| [ve k rest] st]; [ discriminate |].
    destruct k, r, rest; inversion H; subst c'; unfold weight; simpl; lia.
Qed.

Lemma run_weight : forall maxd ca n c h c',
  cancelled ca (c_visits c) = true -> run maxd ca n c = (h, c') ->
  (c_visits c' <= c_visits c + weight c)%nat.
Proof.
  induction n as [| n IH]; intros c h c' Hc H; simpl in H.
  - inversion H. subst. lia.
  - destruct (step maxd ca c) as [hh | c1] eqn:E.
    + inversion H. subst. lia.
    + destruct (step_weight _ _ _ _ Hc E) as [Hw Hv].
      assert (Hc1 : cancelled ca (c_visits c1) = true) by (eapply cancelled_mono; eassumption).
      pose proof (IH c1 h c' Hc1 H). lia.
Qed.

Lemma wr_le_frames : forall st r, (wr r st <= frames_bound st)%nat.
Proof.
  induction st as [| [ve k rest] st IH]; intro r; simpl; [ lia |].
  destruct k.
  - destruct r; [ destruct rest |]; pose proof (IH ROk); pose proof (IH RErr); lia.
  - pose proof (IH ROk). lia.
Qed.

Lemma weight_le_frames : forall c, (weight c <= 1 + frames_bound (c_stack c))%nat.
Proof.
  intros [m st d v]. unfold weight. simpl.
  destruct m; [ pose proof (wr_le_frames st RErr) | pose proof (wr_le_frames st r) ]; lia.
Qed.

Lemma frames_bound_all_stop : forall st, all_stop st = true -> frames_bound st = length st.
Proof.
  induction st as [| [ve k rest] st IH]; intro H; simpl in *; [ reflexivity |].
  destruct k; [| discriminate ]. simpl in H. rewrite IH by exact H. reflexivity.
Qed.

(* after cancellation at most one more evalInternal entry per frame of the continuation
   (plus the remaining children of every Absorb frame) *)
Lemma cancel_bounded : forall maxd ca n c h c',
  cancelled ca (c_visits c) = true -> run maxd ca n c = (h, c') ->
  (c_visits c' - c_visits c <= 1 + frames_bound (c_stack c))%nat.
Proof.
  intros maxd ca n c h c' Hc H.
  pose proof (run_weight _ _ _ _ _ _ Hc H). pose proof (weight_le_frames c). lia.
Qed.

Lemma cancel_bounded_stop : forall maxd ca n c h c',
  cancelled ca (c_visits c) = true -> all_stop (c_stack c) = true -> run maxd ca n c = (h, c') ->
  (c_visits c' - c_visits c <= 1 + length (c_stack c))%nat.
Proof.
  intros maxd ca n c h c' Hc Hs H.
  pose proof (cancel_bounded _ _ _ _ _ _ Hc H). rewrite (frames_bound_all_stop _ Hs) in H0. exact H0.
Qed.

(* ------------------------------------------------------------------ whole-subtree execution *)
(* helper: run composes *)
Lemma run_add : forall maxd ca n1 n2 c c1,
  run maxd ca n1 c = (None, c1) -> run maxd ca (n1 + n2) c = run maxd ca n2 c1.
Proof.
  induction n1 as [| n1 IH]; intros n2 c c1 H; simpl in *.
  - inversion H. reflexivity.
  - destruct (step maxd ca c) as [h | c'] eqn:E; [ discriminate |].
    apply IH; exact H.
Qed.

Lemma run_halt_more : forall maxd ca n1 n2 c h c1,
  run maxd ca n1 c = (Some h, c1) -> run maxd ca (n1 + n2) c = (Some h, c1).
Proof.
  induction n1 as [| n1 IH]; intros n2 c h c1 H; simpl in *.
  - discriminate.
  - destruct (step maxd ca c) as [hh | c'] eqn:E; [ exact H |].
    apply IH; exact H.
Qed.

Fixpoint sizes (l : list tree) : nat := match l with [] => O | c :: l' => (size c + sizes l')%nat end.
Fixpoint needs (l : list tree) : Z := match l with [] => 0 | c :: l' => Z.max (need c) (needs l') end.

Lemma size_unfold : forall ve k cs, size (T ve k cs) = S (sizes cs).
Proof. reflexivity. Qed.
Lemma need_unfold : forall ve k cs, need (T ve k cs) = b2z ve + needs cs.
Proof. reflexivity. Qed.

Lemma needs_nonneg : forall l, 0 <= needs l.
Proof. induction l; simpl; lia. Qed.

(* induction principle for the nested tree type *)
Lemma tree_ind' : forall (P : tree -> Prop),
  (forall ve k cs, Forall P cs -> P (T ve k cs)) -> forall t, P t.
Proof.
  intros P H. fix IH 1. intros [ve k cs]. apply H.
  induction cs as [| c cs IHcs]; constructor; [ apply IH | exact IHcs ].
Qed.

(* Uncancelled execution of a whole subtree from depth d on top of any stack:
   - if the limit allows its nesting, it comes back to the same stack and depth with result ROk after
     exactly 3*size steps... (at most), having made [size t] entries;
   - otherwise the run halts in GuardDepth within that many steps. *)
Definition exec_ok (maxd : Z) (t : tree) : Prop :=
  forall st d v,
    (d + need t <= maxd + 1 ->
       exists n, (n + 1 <= 3 * size t)%nat /\
         run maxd None n (mk_config (Enter t) st d v) = (None, mk_config (Next ROk) st d (v + size t)))
    /\ (d <= maxd + 1 -> maxd + 1 < d + need t ->
       exists n c, (n + 1 <= 3 * size t)%nat /\ run maxd None n (mk_config (Enter t) st d v) = (Some GuardDepth, c)).

(* the children loop of an open frame *)
Definition exec_children (maxd : Z) (ve : bool) (k : fkind) (cs : list tree) : Prop :=
  forall st d v,
    (d + needs cs <= maxd + 1 ->
       exists n, (n <= 3 * sizes cs + 1)%nat /\
         run maxd None n (mk_config (Next ROk) (F ve k cs :: st) d v)
         = (None, mk_config (Next ROk) st (d - b2z ve) (v + sizes cs)))
    /\ (d <= maxd + 1 -> maxd + 1 < d + needs cs ->
       exists n c, (n <= 3 * sizes cs + 1)%nat /\
         run maxd None n (mk_config (Next ROk) (F ve k cs :: st) d v) = (Some GuardDepth, c)).

Lemma exec_children_of : forall maxd ve k cs,
  Forall (exec_ok maxd) cs -> exec_children maxd ve k cs.
Proof.
  intros maxd ve k cs Hall. induction Hall as [| c cs Hc Hcs IH]; intros st d v; cbn [sizes needs].
  - split.
    + intros _. exists 1%nat. split; [ lia |]. simpl. destruct k; rewrite Nat.add_0_r; reflexivity.
    + intros H0 H. lia.
  - split.
    + intro Hle.
      destruct (Hc (F ve k cs :: st) d v) as [Hok _].
      destruct Hok as [n1 [Hn1 Hr1]]; [ lia |].
      destruct (IH st d (v + size c)%nat) as [Hok2 _].
      destruct Hok2 as [n2 [Hn2 Hr2]]; [ lia |].
      exists (1 + (n1 + n2))%nat. split; [ lia |].
      change (run maxd None (1 + (n1 + n2)) ?c) with (run maxd None (S (n1 + n2)) c).
      simpl run at 1. unfold step at 1. simpl.
      replace (match k with Stop => inr _ | Absorb => inr _ end)
        with (@inr halt config (mk_config (Enter c) (F ve k cs :: st) d v)) by (destruct k; reflexivity).
      rewrite (run_add _ _ _ _ _ _ Hr1). rewrite Hr2. rewrite Nat.add_assoc. reflexivity.
    + intros Hd Hgt.
      destruct (Z_le_gt_dec (d + need c) (maxd + 1)) as [Hcle | Hcgt].
      * destruct (Hc (F ve k cs :: st) d v) as [Hok _].
        destruct Hok as [n1 [Hn1 Hr1]]; [ exact Hcle |].
        destruct (IH st d (v + size c)%nat) as [_ Hbad].
        destruct Hbad as [n2 [c2 [Hn2 Hr2]]]; [ lia | lia |].
        exists (1 + (n1 + n2))%nat, c2. split; [ lia |].
        change (run maxd None (1 + (n1 + n2)) ?c) with (run maxd None (S (n1 + n2)) c).
        simpl run at 1. unfold step at 1. simpl.
        replace (match k with Stop => inr _ | Absorb => inr _ end)
          with (@inr halt config (mk_config (Enter c) (F ve k cs :: st) d v)) by (destruct k; reflexivity).
        rewrite (run_add _ _ _ _ _ _ Hr1). exact Hr2.
      * destruct (Hc (F ve k cs :: st) d v) as [_ Hbad].
        destruct Hbad as [n1 [c1 [Hn1 Hr1]]]; [ lia | lia |].
        exists (1 + (n1 + 0))%nat, c1. split; [ lia |].
        change (run maxd None (1 + (n1 + 0)) ?c) with (run maxd None (S (n1 + 0)) c).
        simpl run at 1. unfold step at 1. simpl.
        replace (match k with Stop => inr _ | Absorb => inr _ end)
          with (@inr halt config (mk_config (Enter c) (F ve k cs :: st) d v)) by (destruct k; reflexivity).
        apply run_halt_more. exact Hr1.
Qed.

Lemma exec_all : forall maxd t, exec_ok maxd t.
Proof.
  intros maxd t. induction t as [ve k cs Hcs] using tree_ind'.
  pose proof (exec_children_of maxd ve k cs Hcs) as Hch.
  intros st d v. rewrite need_unfold, size_unfold. split.
  - intro Hle.
    destruct (Hch st (d + b2z ve) (S v)) as [Hok _].
    pose proof (needs_nonneg cs) as Hnn.
    destruct Hok as [n [Hn Hr]]; [ lia |].
    exists (S n). split; [ lia |].
    simpl run. unfold step. simpl.
    assert (Eg : ve && (maxd <? d) = false).
    { destruct ve; [ rewrite andb_true_l; apply Z.ltb_ge; unfold b2z in *; lia | reflexivity ]. }
    rewrite Eg. replace (d + b2z ve - b2z ve) with d in Hr by lia.
    replace (v + S (sizes cs))%nat with (S v + sizes cs)%nat by lia. exact Hr.
  - intros Hd Hgt.
    destruct (ve && (maxd <? d)) eqn:Eg.
    + exists 1%nat, (mk_config (Enter (T ve k cs)) st d v). split; [ lia |].
      simpl. unfold step. simpl. rewrite Eg. reflexivity.
    + destruct (Hch st (d + b2z ve) (S v)) as [_ Hbad].
      destruct Hbad as [n [c [Hn Hr]]];
        [ destruct ve; unfold b2z; [ rewrite andb_true_l in Eg; apply Z.ltb_ge in Eg; lia | lia ] | lia |].
      exists (S n), c. split; [ lia |].
      simpl run. unfold step. simpl. rewrite Eg. exact Hr.
Qed.

(* the guard prediction used by the correspondence: on an uncancelled run from depth 0 the max-depth
   guard fires exactly when the tree needs more than MaxDepth+1 nested Eval activations *)
Lemma guard_fires_iff_need : forall maxd t,
  0 <= maxd -> guard_fires maxd t = Some (maxd + 1 <? need t).
Proof.
  intros maxd t Hmax. unfold guard_fires, fuel_for.
  destruct (exec_all maxd t [] 0 0%nat) as [Hok Hbad].
  destruct (Z_le_gt_dec (need t) (maxd + 1)) as [Hle | Hgt].
  - destruct Hok as [n [Hn Hr]]; [ lia |].
    assert (E : maxd + 1 <? need t = false) by (apply Z.ltb_ge; lia). rewrite E.
    replace (3 * size t + 3)%nat with (n + (3 * size t + 3 - n))%nat by lia.
    unfold init. rewrite (run_add _ _ _ _ _ _ Hr).
    destruct (3 * size t + 3 - n)%nat eqn:En; [ lia |]. simpl. reflexivity.
  - destruct Hbad as [n [c [Hn Hr]]]; [ lia | lia |].
    assert (E : maxd + 1 <? need t = true) by (apply Z.ltb_lt; lia). rewrite E.
    replace (3 * size t + 3)%nat with (n + (3 * size t + 3 - n))%nat by lia.
    unfold init. rewrite (run_halt_more _ _ _ _ _ _ _ Hr). reflexivity.
Qed.

(* an uncancelled run of a finite tree always halts within fuel_for t steps, restoring the depth when
   it is not the guard *)
Lemma run_terminates : forall maxd t,
  0 <= maxd ->
  exists h c, run maxd None (fuel_for t) (init 0 t) = (Some h, c)
              /\ (h = GuardDepth \/ (h = Done ROk /\ c_depth c = 0 /\ c_visits c = size t)).
Proof.
  intros maxd t Hmax. unfold fuel_for.
  destruct (exec_all maxd t [] 0 0%nat) as [Hok Hbad].
  destruct (Z_le_gt_dec (need t) (maxd + 1)) as [Hle | Hgt].
  - destruct Hok as [n [Hn Hr]]; [ lia |].
    exists (Done ROk), (mk_config (Next ROk) [] 0 (0 + size t)).
    replace (3 * size t + 3)%nat with (n + (3 * size t + 3 - n))%nat by lia.
    unfold init. rewrite (run_add _ _ _ _ _ _ Hr).
    destruct (3 * size t + 3 - n)%nat eqn:En; [ lia |]. simpl.
    split; [ reflexivity | right; repeat split ].
  - destruct Hbad as [n [c [Hn Hr]]]; [ lia | lia |].
    exists GuardDepth, c.
    replace (3 * size t + 3)%nat with (n + (3 * size t + 3 - n))%nat by lia.
    unfold init. rewrite (run_halt_more _ _ _ _ _ _ _ Hr). split; [ reflexivity | left; reflexivity ].
Qed.
