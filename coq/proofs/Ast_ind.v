(* Induction principle for the nested syntax tree type. *)
From Coq Require Import List ZArith.
From GrolModel Require Import Ast.
Import ListNotations.

Section node_ind2.
  Variable P : node -> Prop.
  Definition Po (x : option node) : Prop := match x with Some n => P n | None => True end.
  Definition Pl (l : list (option node)) : Prop := Forall Po l.
  Definition Pol (x : option (list (option node))) : Prop := match x with Some l => Pl l | None => True end.
  Definition Pp (l : list (option node * option node)) : Prop := Forall (fun kv => Po (fst kv) /\ Po (snd kv)) l.

  Hypothesis H_ident : forall t, P (NIdent t).
  Hypothesis H_int : forall t v, P (NInt t v).
  Hypothesis H_float : forall t b, P (NFloat t b).
  Hypothesis H_string : forall t, P (NString t).
  Hypothesis H_bool : forall t v, P (NBool t v).
  Hypothesis H_comment : forall t a b, P (NComment t a b).
  Hypothesis H_control : forall t, P (NControl t).
  Hypothesis H_return : forall t v, Po v -> P (NReturn t v).
  Hypothesis H_stmts : forall l, Pl l -> P (NStmts l).
  Hypothesis H_prefix : forall t r, Po r -> P (NPrefix t r).
  Hypothesis H_postfix : forall t p, P (NPostfix t p).
  Hypothesis H_infix : forall t l r, Po l -> Po r -> P (NInfix t l r).
  Hypothesis H_for : forall t c b, Po c -> Po b -> P (NFor t c b).
  Hypothesis H_if : forall t c a b, Po c -> Po a -> Po b -> P (NIf t c a b).
  Hypothesis H_builtin : forall t ps, Pol ps -> P (NBuiltin t ps).
  Hypothesis H_func : forall t nm ps b v l, Pol ps -> Po b -> P (NFunc t nm ps b v l).
  Hypothesis H_call : forall t f a, Po f -> Pol a -> P (NCall t f a).
  Hypothesis H_array : forall t e, Pol e -> P (NArray t e).
  Hypothesis H_index : forall t l i, Po l -> Po i -> P (NIndex t l i).
  Hypothesis H_map : forall t ps, Pp ps -> P (NMap t ps).
  Hypothesis H_macro : forall t ps b, Pol ps -> Po b -> P (NMacro t ps b).

  Fixpoint node_ind2 (n : node) : P n :=
    let fo := fun (x : option node) => match x return Po x with Some m => node_ind2 m | None => I end in
    let fl := fix go (l : list (option node)) : Pl l :=
      match l return Pl l with
      | [] => Forall_nil _
      | x :: r => Forall_cons x (fo x) (go r)
      end in
    let fol := fun (x : option (list (option node))) => match x return Pol x with Some l => fl l | None => I end in
    let fp := fix go (l : list (option node * option node)) : Pp l :=
      match l return Pp l with
      | [] => Forall_nil _
      | kv :: r => Forall_cons kv (conj (fo (fst kv)) (fo (snd kv))) (go r)
      end in
    match n return P n with
    | NIdent t => H_ident t
    | NInt t v => H_int t v
    | NFloat t b => H_float t b
    | NString t => H_string t
    | NBool t v => H_bool t v
    | NComment t a b => H_comment t a b
    | NControl t => H_control t
    | NReturn t v => H_return t v (fo v)
    | NStmts l => H_stmts l (fl l)
    | NPrefix t r => H_prefix t r (fo r)
    | NPostfix t p => H_postfix t p
    | NInfix t l r => H_infix t l r (fo l) (fo r)
    | NFor t c b => H_for t c b (fo c) (fo b)
    | NIf t c a b => H_if t c a b (fo c) (fo a) (fo b)
    | NBuiltin t ps => H_builtin t ps (fol ps)
    | NFunc t nm ps b v l => H_func t nm ps b v l (fol ps) (fo b)
    | NCall t f a => H_call t f a (fo f) (fol a)
    | NArray t e => H_array t e (fol e)
    | NIndex t l i => H_index t l i (fo l) (fo i)
    | NMap t ps => H_map t ps (fp ps)
    | NMacro t ps b => H_macro t ps b (fol ps) (fo b)
    end.
End node_ind2.
