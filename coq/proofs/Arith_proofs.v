(* Lemmas about model/Arith.v: no Go panic from the repaired integer / index / size arithmetic,
   soundness of the memory guard, the applyExtension validation loop, and the refutation witnesses
   for the pinned arithmetic. *)
From Coq Require Import List ZArith Bool Lia.
From GrolGen Require Import Gen_Consts.
From GrolModel Require Import Arith.
Import ListNotations.
Local Open Scope Z_scope.

(* ------------------------------------------------------------------ wrap64 *)
Lemma two64_pos : 0 < two64. Proof. reflexivity. Qed.

Lemma wrap64_in_range : forall z, in_int64 (wrap64 z).
Proof.
  intro z. unfold in_int64, wrap64, min_int, max_int.
  pose proof (Z.mod_pos_bound (z + two63) two64 two64_pos) as H.
  unfold two64, two63 in *. lia.
Qed.

Lemma wrap64_id : forall z, in_int64 z -> wrap64 z = z.
Proof.
  intros z [Hlo Hhi]. unfold wrap64, min_int, max_int in *.
  rewrite Z.mod_small; unfold two64, two63 in *; lia.
Qed.

Lemma obj_size_pos : 0 < object_ObjectSize. Proof. reflexivity. Qed.

(* ------------------------------------------------------------------ memory guard *)
(* the repaired guard is sound over the mathematical integers: no wrap-around can hide a size *)
Lemma size_ok_sound : forall free n,
  size_ok free n = true -> n <= small_size \/ n * object_ObjectSize < free.
Proof.
  intros free n H. unfold size_ok in H.
  apply orb_true_iff in H. destruct H as [H | H].
  - left. apply Z.leb_le in H. exact H.
  - right. apply andb_true_iff in H. destruct H as [Hf Hn].
    apply Z.leb_le in Hf. apply Z.ltb_lt in Hn.
    rewrite Z.quot_div_nonneg in Hn by (try exact obj_size_pos; lia).
    pose proof obj_size_pos as Hs.
    pose proof (Z.mul_div_le free object_ObjectSize Hs) as Hm.
    assert ((n + 1) * object_ObjectSize <= free).
    { transitivity (object_ObjectSize * (free / object_ObjectSize)); [| exact Hm].
      rewrite Z.mul_comm. apply Z.mul_le_mono_nonneg_l; lia. }
    lia.
Qed.

Lemma size_ok_pinned_unsound : exists free n,
  in_int64 n /\ 0 <= free /\ size_ok_pinned free n = true
  /\ ~ (n <= small_size \/ n * object_ObjectSize < free).
Proof.
  exists 268435456, 1152921504606846976.
  split; [ unfold in_int64, min_int, max_int, two63; lia |].
  split; [ lia |].
  split; [ vm_compute; reflexivity |].
  unfold small_size. change object_ObjectSize with 16. lia.
Qed.

Lemma make_object_slice_no_panic : forall free n,
  0 <= n -> free <= max_alloc -> is_go_panic (make_object_slice free n) = false.
Proof.
  intros free n Hn Hf. unfold make_object_slice, must_be_ok.
  destruct (size_ok free n) eqn:E; simpl; [| reflexivity].
  apply size_ok_sound in E. unfold go_make_objs.
  assert (Hc : (n <? 0) || (max_alloc <? n * object_ObjectSize) = false).
  { apply orb_false_iff. split; [ apply Z.ltb_ge; lia |].
    apply Z.ltb_ge. destruct E as [E | E].
    - unfold small_size in E. change object_ObjectSize with 16. unfold max_alloc. lia.
    - lia. }
  rewrite Hc. reflexivity.
Qed.

Lemma make_object_slice_val : forall free n,
  make_object_slice free n = Val tt -> n <= small_size \/ n * object_ObjectSize < free.
Proof.
  intros free n H. unfold make_object_slice, must_be_ok in H.
  destruct (size_ok free n) eqn:E; simpl in H; [| discriminate].
  apply size_ok_sound; exact E.
Qed.

(* ------------------------------------------------------------------ integer operators *)
Lemma int_infix_no_panic : forall free op a b,
  free <= max_alloc -> is_go_panic (int_infix free op a b) = false.
Proof.
  intros free op a b Hf. destruct op; simpl; try reflexivity.
  - (* / *) unfold go_quo. destruct (b =? 0); reflexivity.
  - (* % *) unfold go_rem. destruct (b =? 0); reflexivity.
  - (* << *) unfold go_shl. destruct (b <? 0); reflexivity.
  - (* >> *) unfold go_shr_u. destruct (b <? 0); reflexivity.
  - (* : *)
    destruct ((wrap64 (b - a) <? 0) || (b <? a)) eqn:E; [ reflexivity |].
    apply orb_false_iff in E. destruct E as [E _]. apply Z.ltb_ge in E.
    pose proof (make_object_slice_no_panic free (wrap64 (b - a)) E Hf) as H.
    destruct (make_object_slice free (wrap64 (b - a))) as [[] | | k | g]; simpl in *; congruence.
Qed.

(* every result of + - * / % << >> on int64 operands is an int64 (Go wraps silently) *)
Lemma int_infix_arith_in_range : forall free op a b z,
  in_int64 a -> in_int64 b ->
  match op with IAnd | IOr | IXor => False | _ => True end ->
  int_infix free op a b = Val (RInt z) -> in_int64 z.
Proof.
  intros free op a b z Ha Hb Hop H. destruct op; simpl in H; try contradiction.
  - inversion H. apply wrap64_in_range.
  - inversion H. apply wrap64_in_range.
  - inversion H. apply wrap64_in_range.
  - unfold go_quo in H. destruct (b =? 0) eqn:E; simpl in H; [ discriminate |].
    inversion H. apply wrap64_in_range.
  - unfold go_rem in H. destruct (b =? 0) eqn:E; simpl in H; [ discriminate |].
    inversion H. subst z. apply Z.eqb_neq in E.
    unfold in_int64, min_int, max_int, two63 in *.
    pose proof (Z.rem_bound_abs a b E) as Hr.
    destruct (Z.abs_spec b) as [[? Hab] | [? Hab]]; rewrite Hab in Hr;
      destruct (Z.abs_spec (Z.rem a b)) as [[? Har] | [? Har]]; rewrite Har in Hr; lia.
  - unfold go_shl in H. destruct (b <? 0); simpl in H; [ discriminate |].
    inversion H. destruct (64 <=? b); [ unfold in_int64, min_int, max_int, two63; lia | apply wrap64_in_range ].
  - unfold go_shr_u in H. destruct (b <? 0); simpl in H; [ discriminate |].
    inversion H. destruct (64 <=? b); [ unfold in_int64, min_int, max_int, two63; lia | apply wrap64_in_range ].
  - destruct ((wrap64 (b - a) <? 0) || (b <? a)); [ discriminate |].
    destruct (make_object_slice free (wrap64 (b - a))) as [[] | | k | g]; simpl in H; discriminate.
  - discriminate.
Qed.

(* a range that is built passed the guard with its true (unwrapped) length *)
Lemma int_range_sound : forall free a b lo hi,
  in_int64 a -> in_int64 b ->
  int_infix free IRange a b = Val (RRange lo hi) ->
  lo = a /\ hi = b /\ a <= b /\ (b - a <= small_size \/ (b - a) * object_ObjectSize < free).
Proof.
  intros free a b lo hi Ha Hb H. simpl in H.
  destruct ((wrap64 (b - a) <? 0) || (b <? a)) eqn:E; [ discriminate |].
  apply orb_false_iff in E. destruct E as [E1 E2]. apply Z.ltb_ge in E1. apply Z.ltb_ge in E2.
  destruct (make_object_slice free (wrap64 (b - a))) as [[] | | k | g] eqn:M; simpl in H; try discriminate.
  inversion H; subst lo hi.
  apply make_object_slice_val in M.
  (* a <= b and wrap64 (b-a) >= 0 force b - a < 2^63, so the wrap is the identity *)
  assert (Hw : wrap64 (b - a) = b - a).
  { unfold in_int64, min_int, max_int, two63 in *.
    assert (Hr : 0 <= b - a < two64) by (unfold two64; lia).
    destruct (Z_lt_le_dec (b - a) two63) as [Hlt | Hge].
    - apply wrap64_id. unfold in_int64, min_int, max_int, two63 in *. lia.
    - exfalso. unfold wrap64 in E1.
      replace (b - a + two63) with ((b - a - two63) + 1 * two64) in E1 by (unfold two64, two63; lia).
      rewrite Z.mod_add in E1 by (unfold two64; lia).
      rewrite Z.mod_small in E1 by (unfold two64, two63 in *; lia).
      unfold two63 in *. lia. }
  rewrite Hw in M. split; [ reflexivity |]. split; [ reflexivity |]. split; [ lia | exact M ].
Qed.

(* ------------------------------------------------------------------ range index / index *)
Lemma index_range_safe : forall k len l r,
  0 <= len ->
  match index_range k len l r with
  | Val (SRange lo hi) => 0 <= lo <= hi /\ hi <= len
  | Val SNull => k = CNil
  | LangError => True
  | GoPanic _ => False
  | Guard _ => False
  end.
Proof.
  intros k len l r Hlen. unfold index_range, index_range_gen.
  destruct (negb (is_int_idx l && match r with RAbsent => true | RBound v => is_int_idx v end)); [ exact I |].
  set (num := obj_len k len).
  set (l1 := if int64_value l <? 0 then wrap64 (num + int64_value l) else int64_value l).
  set (r1 := match r with
             | RAbsent => num
             | RBound v => if int64_value v <? 0 then wrap64 (num + int64_value v) else int64_value v
             end).
  destruct (r1 <? l1) eqn:E; [ exact I |]. apply Z.ltb_ge in E.
  destruct k; try exact I; try reflexivity;
    unfold go_slice;
    assert (Hn : num = len) by reflexivity;
    match goal with
    | |- context [ (0 <=? ?lo) && (?lo <=? ?hi) && (?hi <=? len) ] =>
        assert (Hc : (0 <=? lo) && (lo <=? hi) && (hi <=? len) = true)
          by (rewrite !andb_true_iff, !Z.leb_le; lia);
        rewrite Hc; simpl; lia
    end.
Qed.

Lemma index_expr_safe : forall k len i,
  0 <= len ->
  match index_expr k len i with
  | Val (XElem j) => 0 <= j < len
  | Val _ => True
  | LangError => True
  | GoPanic _ => False
  | Guard _ => False
  end.
Proof.
  intros k len i Hlen. unfold index_expr.
  destruct k; try exact I.
  - destruct (match i with XOther => false | _ => true end); [| exact I].
    set (idx := match i with XNil => 0 | XInt z => z | XOther => -1 end).
    set (idx1 := if idx <? 0 then wrap64 (len + idx) else idx).
    destruct ((idx1 <? 0) || (len <=? idx1)) eqn:E; [ exact I |].
    apply orb_false_iff in E. destruct E as [E1 E2]. apply Z.ltb_ge in E1. apply Z.leb_gt in E2.
    unfold go_index.
    assert (Hc : (0 <=? idx1) && (idx1 <? len) = true) by (rewrite andb_true_iff, Z.leb_le, Z.ltb_lt; lia).
    rewrite Hc. simpl. lia.
  - destruct (match i with XOther => false | _ => true end); [| exact I].
    set (idx := match i with XNil => 0 | XInt z => z | XOther => -1 end).
    set (idx1 := if idx <? 0 then wrap64 (len - 1 + 1 + idx) else idx).
    destruct ((idx1 <? 0) || (len - 1 <? idx1)) eqn:E; [ exact I |].
    apply orb_false_iff in E. destruct E as [E1 E2]. apply Z.ltb_ge in E1. apply Z.ltb_ge in E2.
    unfold go_index.
    assert (Hc : (0 <=? idx1) && (idx1 <? len) = true) by (rewrite andb_true_iff, Z.leb_le, Z.ltb_lt; lia).
    rewrite Hc. simpl. lia.
Qed.

Lemma index_assign_safe : forall len i,
  0 <= len ->
  match index_assign len i with
  | Val j => 0 <= j < len
  | LangError => True
  | GoPanic _ => False
  | Guard _ => False
  end.
Proof.
  intros len i Hlen. unfold index_assign. destruct i as [idx | |]; try exact I.
  set (idx1 := if idx <? 0 then wrap64 (len + idx) else idx).
  destruct ((idx1 <? 0) || (len <=? idx1)) eqn:E; [ exact I |].
  apply orb_false_iff in E. destruct E as [E1 E2]. apply Z.ltb_ge in E1. apply Z.leb_gt in E2.
  unfold go_index.
  assert (Hc : (0 <=? idx1) && (idx1 <? len) = true) by (rewrite andb_true_iff, Z.leb_le, Z.ltb_lt; lia).
  rewrite Hc. lia.
Qed.

(* ------------------------------------------------------------------ repeat / concat *)
(* SizeMul is the exact product whenever it is below MaxInt, and MaxInt otherwise *)
Lemma size_mul_spec : forall a b,
  0 <= a -> 0 <= b ->
  (a * b <= max_int /\ size_mul a b = a * b) \/ (max_int < a * b /\ size_mul a b = max_int).
Proof.
  intros a b Ha Hb. unfold size_mul.
  destruct (0 <? a) eqn:Ea; simpl.
  - apply Z.ltb_lt in Ea.
    assert (Hmi : 0 <= max_int) by (unfold max_int, two63; lia).
    rewrite Z.quot_div_nonneg by lia.
    destruct (max_int / a <? b) eqn:Eb.
    + right. split; [| reflexivity]. apply Z.ltb_lt in Eb.
      pose proof (Z.mul_succ_div_gt max_int a Ea) as Hd. nia.
    + left. apply Z.ltb_ge in Eb.
      pose proof (Z.mul_div_le max_int a Ea) as Hd.
      assert (a * b <= max_int) by nia.
      split; [ assumption |]. apply wrap64_id. unfold in_int64, min_int, max_int, two63 in *. nia.
  - apply Z.ltb_ge in Ea. assert (a = 0) by lia. subst a. left.
    split; [ unfold max_int, two63; lia | reflexivity ].
Qed.

Lemma max_int_refused : forall free n,
  free <= max_alloc -> max_int / object_ObjectSize <= n -> size_ok free n = false.
Proof.
  intros free n Hf Hn. unfold size_ok.
  change (max_int / object_ObjectSize) with 576460752303423487 in Hn.
  apply orb_false_iff. split.
  - apply Z.leb_gt. unfold small_size. lia.
  - destruct (0 <=? free) eqn:E; [| reflexivity]. simpl. apply Z.leb_le in E.
    apply Z.ltb_ge. rewrite Z.quot_div_nonneg by (try exact obj_size_pos; lia).
    assert (free / object_ObjectSize <= max_alloc / object_ObjectSize)
      by (apply Z.div_le_mono; [ exact obj_size_pos | exact Hf ]).
    change (max_alloc / object_ObjectSize) with 17592186044416 in H. lia.
Qed.

Lemma array_repeat_sound : forall free len r k,
  0 <= len -> free <= max_alloc ->
  array_repeat free len r = Val k ->
  0 <= r /\ k = len * r /\ (k <= small_size \/ k * object_ObjectSize < free).
Proof.
  intros free len r k Hlen Hf H. unfold array_repeat in H.
  destruct (r <? 0) eqn:Er; [ discriminate |]. apply Z.ltb_ge in Er.
  destruct (len =? 0) eqn:El.
  { apply Z.eqb_eq in El. subst len. inversion H. subst k. unfold small_size. repeat split; lia. }
  destruct (make_object_slice free (size_mul len r)) as [[] | | p | g] eqn:M; simpl in H; try discriminate.
  inversion H. subst k.
  destruct (size_mul_spec len r Hlen Er) as [[Hle Heq] | [Hgt Heq]]; rewrite Heq in M.
  - apply make_object_slice_val in M. auto.
  - exfalso. unfold make_object_slice, must_be_ok in M.
    rewrite (max_int_refused free max_int Hf) in M; [ discriminate |].
    apply Z.div_le_upper_bound; [ exact obj_size_pos |].
    change object_ObjectSize with 16. unfold max_int, two63. lia.
Qed.

Lemma array_repeat_no_panic : forall free len r,
  0 <= len -> free <= max_alloc -> is_go_panic (array_repeat free len r) = false.
Proof.
  intros free len r Hlen Hf. unfold array_repeat.
  destruct (r <? 0) eqn:Er; [ reflexivity |]. apply Z.ltb_ge in Er.
  destruct (len =? 0); [ reflexivity |].
  assert (Hn : 0 <= size_mul len r).
  { destruct (size_mul_spec len r Hlen Er) as [[_ Heq] | [_ Heq]]; rewrite Heq;
      [ nia | unfold max_int, two63; lia ]. }
  pose proof (make_object_slice_no_panic free (size_mul len r) Hn Hf) as H.
  destruct (make_object_slice free (size_mul len r)) as [[] | | p | g]; simpl in *; congruence.
Qed.

Lemma string_repeat_no_panic : forall free len r,
  0 <= len -> free <= max_alloc -> is_go_panic (string_repeat free len r) = false.
Proof.
  intros free len r Hlen Hf. unfold string_repeat.
  destruct (r <? 0) eqn:Er; [ reflexivity |]. apply Z.ltb_ge in Er.
  unfold must_be_ok.
  destruct (size_mul_spec len r Hlen Er) as [[Hle Heq] | [Hgt Heq]]; rewrite Heq.
  - destruct (size_ok free (Z.quot (len * r) object_ObjectSize)); simpl; [| reflexivity].
    unfold go_repeat.
    assert (E1 : r <? 0 = false) by (apply Z.ltb_ge; lia). rewrite E1.
    assert (E2 : max_int <? len * r = false) by (apply Z.ltb_ge; lia). rewrite E2. reflexivity.
  - rewrite (max_int_refused free (Z.quot max_int object_ObjectSize) Hf); [ reflexivity |].
    rewrite Z.quot_div_nonneg by (try exact obj_size_pos; unfold max_int, two63; lia). lia.
Qed.

Lemma string_repeat_sound : forall free len r k,
  0 <= len -> free <= max_alloc ->
  string_repeat free len r = Val k ->
  0 <= r /\ k = len * r
  /\ (k / object_ObjectSize <= small_size \/ (k / object_ObjectSize) * object_ObjectSize < free).
Proof.
  intros free len r k Hlen Hf H. unfold string_repeat in H.
  destruct (r <? 0) eqn:Er; [ discriminate |]. apply Z.ltb_ge in Er.
  unfold must_be_ok in H.
  destruct (size_mul_spec len r Hlen Er) as [[Hle Heq] | [Hgt Heq]]; rewrite Heq in H.
  - destruct (size_ok free (Z.quot (len * r) object_ObjectSize)) eqn:E; simpl in H; [| discriminate].
    unfold go_repeat in H.
    assert (E1 : r <? 0 = false) by (apply Z.ltb_ge; lia). rewrite E1 in H.
    assert (E2 : max_int <? len * r = false) by (apply Z.ltb_ge; lia). rewrite E2 in H.
    inversion H. subst k.
    rewrite Z.quot_div_nonneg in E by (try exact obj_size_pos; nia).
    apply size_ok_sound in E. auto.
  - rewrite (max_int_refused free (Z.quot max_int object_ObjectSize) Hf) in H; [ discriminate |].
    rewrite Z.quot_div_nonneg by (try exact obj_size_pos; unfold max_int, two63; lia). lia.
Qed.

Lemma array_concat_sound : forall free l1 l2 k,
  0 <= l1 -> 0 <= l2 -> l1 + l2 <= max_int ->
  array_concat free l1 l2 = Val k ->
  k = l1 + l2 /\ (k <= small_size \/ k * object_ObjectSize < free).
Proof.
  intros free l1 l2 k H1 H2 Hs H. unfold array_concat, must_be_ok in H.
  rewrite wrap64_id in H by (unfold in_int64, min_int, max_int, two63 in *; lia).
  destruct (size_ok free (l1 + l2)) eqn:E; simpl in H; [| discriminate].
  inversion H. subst k. split; [ reflexivity |]. apply size_ok_sound; exact E.
Qed.

Lemma string_concat_sound : forall free l1 l2 k,
  0 <= l1 -> 0 <= l2 -> l1 + l2 <= max_int ->
  string_concat free l1 l2 = Val k ->
  k = l1 + l2
  /\ (k / object_ObjectSize <= small_size \/ (k / object_ObjectSize) * object_ObjectSize < free).
Proof.
  intros free l1 l2 k H1 H2 Hs H. unfold string_concat, must_be_ok in H.
  rewrite wrap64_id in H by (unfold in_int64, min_int, max_int, two63 in *; lia).
  rewrite Z.quot_div_nonneg in H by (try exact obj_size_pos; lia).
  destruct (size_ok free ((l1 + l2) / object_ObjectSize)) eqn:E; simpl in H; [| discriminate].
  inversion H. subst k. split; [ reflexivity |]. apply size_ok_sound; exact E.
Qed.

Lemma array_append_elem_sound : forall free l k,
  0 <= l -> l + 1 <= max_int ->
  array_append_elem free l = Val k ->
  k = l + 1 /\ (k <= small_size \/ k * object_ObjectSize < free).
Proof.
  intros free l k Hl Hs H. unfold array_append_elem, must_be_ok in H.
  rewrite wrap64_id in H by (unfold in_int64, min_int, max_int, two63 in *; lia).
  destruct (size_ok free (l + 1)) eqn:E; simpl in H; [| discriminate].
  inversion H. subst k. split; [ reflexivity |]. apply size_ok_sound; exact E.
Qed.

(* as pinned there is no bound at all: doubling a 256 MiB string is accepted with 1 byte free *)
Lemma string_concat_pinned_unguarded : string_concat_pinned 1 268435456 268435456 = Val 536870912.
Proof. reflexivity. Qed.

(* ------------------------------------------------------------------ applyExtension validation *)
Lemma validate_loop_length : forall types args r,
  validate_loop types args = Val r -> length r = length args.
Proof.
  induction types as [| t types IH]; intros args r H.
  - destruct args; simpl in H; inversion H; reflexivity.
  - destruct args as [| a args]; simpl in H; [ inversion H; reflexivity |].
    destruct (t =? object_ANY).
    + destruct (validate_loop types args) eqn:E; simpl in H; try discriminate.
      inversion H. simpl. f_equal. apply IH; exact E.
    + destruct ((t =? object_FLOAT) && (ea_under a =? object_INTEGER)).
      * destruct (validate_loop types args) eqn:E; simpl in H; try discriminate.
        inversion H. simpl. f_equal. apply IH; exact E.
      * destruct (t =? ea_under a); [| discriminate].
        destruct (validate_loop types args) eqn:E; simpl in H; try discriminate.
        inversion H. simpl. f_equal. apply IH; exact E.
Qed.

Lemma validate_loop_types : forall types args r,
  validate_loop types args = Val r ->
  forall i t a, nth_error types i = Some t -> nth_error r i = Some a ->
  t = object_ANY \/ ea_ty a = t.
Proof.
  induction types as [| t0 types IH]; intros args r H i t a Ht Ha.
  - destruct i; discriminate.
  - destruct args as [| a0 args]; simpl in H.
    + inversion H. subst r. destruct i; discriminate.
    + destruct (t0 =? object_ANY) eqn:Eany.
      * destruct (validate_loop types args) eqn:E; simpl in H; try discriminate.
        inversion H. subst r. destruct i as [| i]; simpl in *.
        -- inversion Ht. subst t. left. apply Z.eqb_eq; exact Eany.
        -- eapply IH; eassumption.
      * destruct ((t0 =? object_FLOAT) && (ea_under a0 =? object_INTEGER)) eqn:Ep.
        -- destruct (validate_loop types args) eqn:E; simpl in H; try discriminate.
           inversion H. subst r. destruct i as [| i]; simpl in *.
           ++ inversion Ht. inversion Ha. subst. right. simpl.
              apply andb_true_iff in Ep. destruct Ep as [Ep _]. apply Z.eqb_eq in Ep. symmetry; exact Ep.
           ++ eapply IH; eassumption.
        -- destruct (t0 =? ea_under a0) eqn:Et; [| discriminate].
           destruct (validate_loop types args) eqn:E; simpl in H; try discriminate.
           inversion H. subst r. destruct i as [| i]; simpl in *.
           ++ inversion Ht. inversion Ha. subst. right. simpl. apply Z.eqb_eq in Et. symmetry; exact Et.
           ++ eapply IH; eassumption.
Qed.

Lemma apply_ext_validate_sound : forall mina maxa types args r,
  apply_ext_validate mina maxa types args = Val r ->
  mina <= Z.of_nat (length r)
  /\ (maxa = -1 \/ Z.of_nat (length r) <= maxa)
  /\ forall i t a, nth_error types i = Some t -> nth_error r i = Some a ->
       t = object_ANY \/ ea_ty a = t.
Proof.
  intros mina maxa types args r H. unfold apply_ext_validate in H.
  set (args1 := expand_variadic maxa args) in *.
  destruct (Z.of_nat (length args1) <? mina) eqn:E1; [ discriminate |].
  destruct (negb (maxa =? -1) && (maxa <? Z.of_nat (length args1))) eqn:E2; [ discriminate |].
  apply Z.ltb_ge in E1.
  pose proof (validate_loop_length _ _ _ H) as Hl. rewrite Hl.
  split; [ exact E1 |]. split.
  - apply andb_false_iff in E2. destruct E2 as [E2 | E2].
    + left. apply negb_false_iff in E2. apply Z.eqb_eq; exact E2.
    + right. apply Z.ltb_ge; exact E2.
  - eapply validate_loop_types; exact H.
Qed.

(* a validated argument whose declared type is not ANY is never a reference: it was dereferenced *)
Lemma validated_not_reference : forall mina maxa types args r i t a,
  apply_ext_validate mina maxa types args = Val r ->
  nth_error types i = Some t -> nth_error r i = Some a ->
  t <> object_ANY -> t <> object_REFERENCE -> ea_ty a <> object_REFERENCE.
Proof.
  intros mina maxa types args r i t a H Ht Ha Hany Href.
  destruct (apply_ext_validate_sound _ _ _ _ _ H) as [_ [_ Hty]].
  destruct (Hty i t a Ht Ha) as [E | E]; [ contradiction | congruence ].
Qed.

(* ------------------------------------------------------------------ refutation witnesses (pinned code) *)
Lemma pinned_div_zero : int_infix_pinned 0 IDiv 1 0 = GoPanic PDivZero.
Proof. reflexivity. Qed.
Lemma pinned_mod_zero : int_infix_pinned 0 IMod 1 0 = GoPanic PDivZero.
Proof. reflexivity. Qed.
Lemma pinned_shl_neg : int_infix_pinned 0 IShl 1 (-1) = GoPanic PNegShift.
Proof. reflexivity. Qed.
Lemma pinned_shr_neg : int_infix_pinned 0 IShr 1 (-1) = GoPanic PNegShift.
Proof. reflexivity. Qed.
(* 0:4611686018427387904 : n*16 wraps to 0, the guard passes, makeslice panics *)
Lemma pinned_range_makeslice : int_infix_pinned 536870912 IRange 0 4611686018427387904 = GoPanic PMakeSlice.
Proof. vm_compute. reflexivity. Qed.
(* "abc"[-5:2] and a=[1,2,3];a[-7:1] *)
Lemma pinned_slice_string : index_range_pinned CString 3 (XInt (-5)) (RBound (XInt 2)) = GoPanic PSliceBounds.
Proof. vm_compute. reflexivity. Qed.
Lemma pinned_slice_array : index_range_pinned CArray 3 (XInt (-7)) (RBound (XInt 1)) = GoPanic PSliceBounds.
Proof. vm_compute. reflexivity. Qed.
(* [1,2]*4611686018427387904 and "abc"*6148914691236517206 *)
Lemma pinned_array_repeat_makeslice : array_repeat_pinned 536870912 2 4611686018427387904 = GoPanic PMakeSlice.
Proof. vm_compute. reflexivity. Qed.
Lemma pinned_string_repeat_overflow : string_repeat_pinned 536870912 3 6148914691236517206 = GoPanic PRepeatOverflow.
Proof. vm_compute. reflexivity. Qed.
(* C09: [1,2,3]*6148914691236517206 with 200 MiB free: the guard passes on the wrapped size 2 and the
   append loop is entered for 18446744073709551618 elements *)
Lemma pinned_array_repeat_unguarded :
  array_repeat_pinned 209715200 3 6148914691236517206 = Val 18446744073709551618.
Proof. vm_compute. reflexivity. Qed.
Lemma repaired_array_repeat_guarded :
  array_repeat 209715200 3 6148914691236517206 = Guard GMemory.
Proof. vm_compute. reflexivity. Qed.

(* the repaired functions on the same witnesses *)
Lemma repaired_witnesses :
  int_infix 0 IDiv 1 0 = LangError /\ int_infix 0 IMod 1 0 = LangError
  /\ int_infix 0 IShl 1 (-1) = LangError /\ int_infix 0 IShr 1 (-1) = LangError
  /\ int_infix 536870912 IRange 0 4611686018427387904 = Guard GMemory
  /\ index_range CString 3 (XInt (-5)) (RBound (XInt 2)) = Val (SRange 0 2)
  /\ index_range CArray 3 (XInt (-7)) (RBound (XInt 1)) = Val (SRange 0 1)
  /\ array_repeat 536870912 2 4611686018427387904 = Guard GMemory
  /\ string_repeat 536870912 3 6148914691236517206 = Guard GMemory.
Proof. vm_compute. repeat split. Qed.

(* ------------------------------------------------------------------ statements used by props/C07.v, props/C09.v *)
Lemma repeat_no_panic : forall free len r,
  0 <= len -> free <= max_alloc ->
  is_go_panic (array_repeat free len r) = false /\ is_go_panic (string_repeat free len r) = false.
Proof. intros. split; [ apply array_repeat_no_panic | apply string_repeat_no_panic ]; assumption. Qed.

Lemma refuted_pinned_div : exists a b, int_infix_pinned 0 IDiv a b = GoPanic PDivZero.
Proof. exists 1, 0. exact pinned_div_zero. Qed.
Lemma refuted_pinned_mod : exists a b, int_infix_pinned 0 IMod a b = GoPanic PDivZero.
Proof. exists 1, 0. exact pinned_mod_zero. Qed.
Lemma refuted_pinned_shift : exists a b,
  int_infix_pinned 0 IShl a b = GoPanic PNegShift /\ int_infix_pinned 0 IShr a b = GoPanic PNegShift.
Proof. exists 1, (-1). split; [ exact pinned_shl_neg | exact pinned_shr_neg ]. Qed.
Lemma refuted_pinned_slice : exists k len l r,
  0 <= len /\ index_range_pinned k len l r = GoPanic PSliceBounds.
Proof. exists CString, 3, (XInt (-5)), (RBound (XInt 2)). split; [ discriminate | exact pinned_slice_string ]. Qed.
Lemma refuted_pinned_repeat : exists free len r,
  0 <= len /\ free <= max_alloc /\ array_repeat_pinned free len r = GoPanic PMakeSlice.
Proof.
  exists 536870912, 2, 4611686018427387904.
  split; [ discriminate |]. split; [ discriminate | exact pinned_array_repeat_makeslice ].
Qed.
Lemma refuted_pinned_string_repeat : exists free len r,
  0 <= len /\ free <= max_alloc /\ string_repeat_pinned free len r = GoPanic PRepeatOverflow.
Proof.
  exists 536870912, 3, 6148914691236517206.
  split; [ discriminate |]. split; [ discriminate | exact pinned_string_repeat_overflow ].
Qed.
Lemma refuted_pinned_range : exists free a b,
  free <= max_alloc /\ int_infix_pinned free IRange a b = GoPanic PMakeSlice.
Proof. exists 536870912, 0, 4611686018427387904. split; [ discriminate | exact pinned_range_makeslice ]. Qed.

(* C09: the pinned repeat guard lets through a result 2^33 times larger than the whole budget *)
Lemma refuted_pinned_repeat_guard : exists free len r k,
  0 <= len /\ 0 <= free <= max_alloc /\ array_repeat_pinned free len r = Val k
  /\ ~ (k <= small_size \/ k * object_ObjectSize < free).
Proof.
  exists 209715200, 3, 6148914691236517206, 18446744073709551618.
  split; [ discriminate |]. split; [ split; discriminate |].
  split; [ exact pinned_array_repeat_unguarded |].
  unfold small_size. change object_ObjectSize with 16. lia.
Qed.
