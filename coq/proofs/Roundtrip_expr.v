(* C02, positive direction, for the expression fragment of model/TokPrint.v:
   the parser, given the tokens the formatter emits for a fragment tree (parentheses exactly where the
   printer puts them), followed by anything that cannot continue the expression, rebuilds that tree.
   Unbounded: induction over the tree; fuel is existential and removed with Parser_mono. *)
From Coq Require Import List ZArith NArith Bool String Lia.
From GrolGen Require Import Gen_Consts Gen_Prec Gen_ParserTables.
From GrolModel Require Import Ast Parser TokPrint.
From GrolProofs Require Import Parser_eqns Front_tables Parser_proofs Parser_mono.
Import ListNotations.
Local Open Scope Z_scope.

(* ---------- the token stream seen from a parser state ---------- *)
(* the next n tokens the parser will see as current token (the end marker repeats for ever) *)
Fixpoint take (n : nat) (s : pstate) : list ptok :=
  match n with O => [] | S m => ps_cur s :: take m (nextToken s) end.
Fixpoint skip (n : nat) (s : pstate) : pstate :=
  match n with O => s | S m => skip m (nextToken s) end.
Definition view (s : pstate) (l : list ptok) : Prop := take (List.length l) s = l.

Lemma skip_S n s : skip (S n) s = skip n (nextToken s).
Proof. reflexivity. Qed.
Lemma skip_add a : forall b s, skip (a + b) s = skip b (skip a s).
Proof. induction a as [|a IH]; intros b s; [reflexivity|]. cbn [Nat.add skip]. apply IH. Qed.
Lemma skip_1 s : nextToken s = skip 1 s. Proof. reflexivity. Qed.

Lemma take_length n : forall s, List.length (take n s) = n.
Proof. induction n as [|n IH]; intros s; cbn; [reflexivity|]. now rewrite IH. Qed.
Lemma take_app a : forall b s, take (a + b) s = take a s ++ take b (skip a s).
Proof.
  induction a as [|a IH]; intros b s; [reflexivity|].
  cbn [Nat.add take skip app]. now rewrite IH.
Qed.

Lemma app_eq_len {A} (a : list A) : forall b c d, a ++ b = c ++ d -> List.length a = List.length c -> a = c /\ b = d.
Proof.
  induction a as [|x a IH]; intros b [|y c] d H Hl; try discriminate Hl.
  - now split.
  - cbn in H. injection H as -> H. injection Hl as Hl. destruct (IH _ _ _ H Hl) as [-> ->]. now split.
Qed.

Lemma view_split l1 l2 s : view s (l1 ++ l2) -> view s l1 /\ view (skip (List.length l1) s) l2.
Proof.
  unfold view. rewrite app_length, take_app. intros H.
  apply app_eq_len in H; [exact H|]. now rewrite take_length.
Qed.
Lemma view_prefix l1 l2 s : view s (l1 ++ l2) -> view s l1.
Proof. intros H. now apply view_split in H. Qed.
Lemma view_skip l1 l2 s : view s (l1 ++ l2) -> view (skip (List.length l1) s) l2.
Proof. intros H. now apply view_split in H. Qed.
Lemma view_next a l s : view s (a :: l) -> view (nextToken s) l.
Proof. unfold view. cbn. intros H. now injection H. Qed.
Lemma view_cur a l s : view s (a :: l) -> ps_cur s = a.
Proof. unfold view. cbn. intros H. now injection H. Qed.
Lemma cur_next s : ps_cur (nextToken s) = ps_peek s.
Proof. unfold nextToken. now destruct (ps_rest s). Qed.
Lemma view_peek a b l s : view s (a :: b :: l) -> ps_peek s = b.
Proof. intros H. apply view_next in H. apply view_cur in H. now rewrite cur_next in H. Qed.

Lemma view_at_last (pts : list ptok) tk s :
  view s (pts ++ [tk]) -> pts <> [] ->
  exists lastp, view (skip (List.length pts - 1) s) [lastp; tk].
Proof.
  intros Hs Hp. destruct (exists_last Hp) as [ini [lastp ->]].
  exists lastp. rewrite app_length. cbn [List.length]. replace (List.length ini + 1 - 1)%nat with (List.length ini) by lia.
  apply view_skip. now rewrite <- app_assoc in Hs.
Qed.

(* ---------- table facts, by computation over the generated tables ---------- *)
Definition binop_ok (ty : Z) : bool :=
  let q := precedence_of ty in
  (ast_LOWEST <? q) && (q <? ast_PREFIX)
  && negb (ty =? token_SEMICOLON) && negb (ty =? token_LPAREN) && negb (ty =? token_LBRACKET)
  && negb (ty =? token_LAMBDA) && negb (ty =? token_EOL)
  && match table_get postfix_fns ty with None => true | Some _ => false end.

Lemma binops_ok_tbl :
  forallb (fun kv : Z * string => if String.eqb (snd kv) "parseInfixExpression" then binop_ok (fst kv) else true)
          infix_fns = true.
Proof. vm_compute. reflexivity. Qed.

Lemma bin_op_fn ty : is_bin_op ty = true -> table_get infix_fns ty = Some "parseInfixExpression"%string.
Proof.
  unfold is_bin_op. destruct (table_get infix_fns ty) as [fn|]; [|discriminate].
  intros H. apply String.eqb_eq in H. now subst.
Qed.

Lemma bin_op_ok ty : is_bin_op ty = true -> binop_ok ty = true.
Proof.
  intros H. apply bin_op_fn in H.
  pose proof (table_get_forall _ _ _ _ binops_ok_tbl H) as F. cbn [snd fst] in F.
  now rewrite String.eqb_refl in F.
Qed.

Definition preop_ok (ty : Z) : bool := negb (ty =? token_EOL) && negb (ty =? token_EOF) && negb (ty =? token_RETURN).
Lemma preops_ok_tbl :
  forallb (fun kv : Z * string => if String.eqb (snd kv) "parsePrefixExpression" then preop_ok (fst kv) else true)
          prefix_fns = true.
Proof. vm_compute. reflexivity. Qed.

Lemma prefix_op_fn ty : is_prefix_op ty = true -> table_get prefix_fns ty = Some "parsePrefixExpression"%string.
Proof.
  unfold is_prefix_op. destruct (table_get prefix_fns ty) as [fn|]; [|discriminate].
  intros H. apply String.eqb_eq in H. now subst.
Qed.
Lemma prefix_op_ok ty : is_prefix_op ty = true -> preop_ok ty = true.
Proof.
  intros H. apply prefix_op_fn in H.
  pose proof (table_get_forall _ _ _ _ preops_ok_tbl H) as F. cbn [snd fst] in F.
  now rewrite String.eqb_refl in F.
Qed.

Lemma fact_ident : table_get prefix_fns token_IDENT = Some "parseIdentifier"%string. Proof. reflexivity. Qed.
Lemma fact_int : table_get prefix_fns token_INT = Some "parseIntegerLiteral"%string. Proof. reflexivity. Qed.
Lemma fact_lparen : table_get prefix_fns token_LPAREN = Some "parseGroupedExpression"%string. Proof. reflexivity. Qed.
Lemma fact_rparen_prec : precedence_of token_RPAREN = ast_LOWEST. Proof. reflexivity. Qed.
Lemma fact_rbracket_noprefix : table_get prefix_fns token_RBRACKET = None. Proof. reflexivity. Qed.
Lemma fact_rparen_nopostfix : table_get postfix_fns token_RPAREN = None. Proof. reflexivity. Qed.
Lemma fact_prefix_val : ast_PREFIX = 11 /\ ast_LOWEST = 1 /\ ast_LAMBDA = 5.
Proof. vm_compute. repeat split. Qed.

Section RT.
Variable conv : numconv.
Notation pe := (parseExpression conv).
Notation el := (exprLoop conv).

(* what may follow the expression: not a postfix operator, not `=>` *)
Definition tkok (tk : ptok) : Prop :=
  table_get postfix_fns (pty tk) = None /\ pty tk <> token_LAMBDA.
(* the expression loop at level q stops in front of tk *)
Definition stops (q : Z) (tk : ptok) : Prop :=
  pty tk = token_SEMICOLON \/ precedence_of (pty tk) <= q
  \/ ((pty tk = token_LPAREN \/ pty tk = token_LBRACKET) /\ pk_ws tk = true).
Definition follow (e : ex) (tk : ptok) : Prop :=
  match e with EAtom _ _ | ECall _ _ _ | EIndex _ _ _ => True | _ => stops (lvl e) tk end.

(* parseExpression at level p on [ts ++ tk :: more] behaves as the expression loop entered with left = n
   after the last token of ts *)
(* the parser's tokens carry the listed tokens; a glued token has no white space in front of it *)
Definition mt_ok (pt : ptok) (m : mtok) : Prop := pk pt = fst m /\ (snd m = true -> pk_ws pt = false).
Definition matches (pts : list ptok) (ms : list mtok) : Prop := Forall2 mt_ok pts ms.

Lemma matches_length pts ms : matches pts ms -> List.length pts = List.length ms.
Proof. induction 1; cbn; congruence. Qed.
Lemma matches_app_inv pts a b : matches pts (a ++ b) ->
  exists p1 p2, pts = p1 ++ p2 /\ matches p1 a /\ matches p2 b.
Proof. intros H. apply Forall2_app_inv_r in H as (p1 & p2 & H1 & H2 & ->). eauto. Qed.
Lemma matches_cons_inv pts m ms : matches pts (m :: ms) ->
  exists pt pts', pts = pt :: pts' /\ mt_ok pt m /\ matches pts' ms.
Proof. intros H. inversion H; subst. eauto. Qed.
Lemma matches_nil_inv pts : matches pts [] -> pts = [].
Proof. intros H. now inversion H. Qed.
Lemma matches_nonempty pts ms : matches pts ms -> ms <> [] -> pts <> [].
Proof. intros H Hn ->. inversion H; subst. congruence. Qed.
Lemma matches_pl pt t : mt_ok pt (pl t) -> pk pt = t.
Proof. intros [H _]. exact H. Qed.

Definition Parses (p : Z) (ts : list mtok) (n : node) (K : ptok -> Prop) : Prop :=
  forall pts tk s x s',
    matches pts ts -> K tk ->
    view s (pts ++ [tk]) ->
    (exists f, el f p (Some n) (skip (List.length ts - 1) s) = ROk x s') ->
    exists f, pe f p s = ROk x s'.

Lemma prefixFn_ident f s : prefixFn conv (S f) "parseIdentifier" s = parseIdentifier s.
Proof. reflexivity. Qed.
Lemma prefixFn_int f s : prefixFn conv (S f) "parseIntegerLiteral" s = parseIntegerLiteral conv s.
Proof. reflexivity. Qed.
Lemma prefixFn_prefix f s : prefixFn conv (S f) "parsePrefixExpression" s =
  (dob (r, s1) <- pe f ast_PREFIX (nextToken s); ROk (Some (NPrefix (pk (ps_cur s)) r)) s1).
Proof. reflexivity. Qed.
Lemma prefixFn_group f s : prefixFn conv (S f) "parseGroupedExpression" s = parseGroupedExpression conv f s.
Proof. reflexivity. Qed.
Lemma infixFn_bin f left s : infixFn conv (S f) "parseInfixExpression" left s =
  (if Z.eqb (ttype (pk (ps_cur s))) token_COLON && peekIs s token_RBRACKET
   then ROk (Some (NInfix (pk (ps_cur s)) left None)) s
   else dob (r, s1) <- pe f (curPrecedence s) (nextToken s); ROk (Some (NInfix (pk (ps_cur s)) left r)) s1).
Proof. reflexivity. Qed.

Lemma el_stop q tk left s : stops q tk -> ps_peek s = tk -> el 1 q left s = ROk left s.
Proof.
  intros H Hp. rewrite exprLoop_S. unfold peekIs, peekPrecedence. rewrite Hp.
  destruct H as [H|[H|[H Hw]]].
  - rewrite H, Z.eqb_refl. reflexivity.
  - replace (q <? precedence_of (pty tk)) with false by (symmetry; apply Z.ltb_ge; exact H).
    now rewrite andb_false_r.
  - destruct (negb _ && _); [|reflexivity]. cbv zeta. rewrite Hw.
    destruct (table_get infix_fns (pty tk)); [|reflexivity].
    destruct H as [-> | ->]; rewrite Z.eqb_refl; rewrite ?orb_true_r; reflexivity.
Qed.

(* the prefix-expression head of parseExpression, once the prefix function has answered *)
Lemma pe_head f p s fn left s1 x s' :
  curIs s token_EOL = false ->
  table_get prefix_fns (pty (ps_cur s)) = Some fn ->
  prefixFn conv f fn s = ROk left s1 ->
  pty (ps_peek s1) <> token_LAMBDA ->
  el f p left s1 = ROk x s' ->
  pe (S f) p s = ROk x s'.
Proof.
  intros He Hfn Hp Hl Hel. rewrite parseExpression_S, He, Hfn, Hp.
  unfold peekIs. replace (pty (ps_peek s1) =? token_LAMBDA) with false by (symmetry; now apply Z.eqb_neq).
  exact Hel.
Qed.

Lemma len1 {A} (l : list A) (a : A) : List.length l = 1%nat -> exists x, l = [x].
Proof. destruct l as [|x [|y l]]; cbn; try discriminate. eauto. Qed.

Lemma prefixFn_float f s : prefixFn conv (S f) "parseFloatLiteral" s = parseFloatLiteral conv s.
Proof. reflexivity. Qed.
Lemma prefixFn_string f s : prefixFn conv (S f) "parseStringLiteral" s = ROk (Some (NString (pk (ps_cur s)))) s.
Proof. reflexivity. Qed.
Lemma prefixFn_bool f s : prefixFn conv (S f) "parseBoolean" s = ROk (Some (NBool (pk (ps_cur s)) (curIs s token_TRUE))) s.
Proof. reflexivity. Qed.
Lemma prefixFn_control f s : prefixFn conv (S f) "parseControlExpression" s = ROk (Some (NControl (pk (ps_cur s)))) s.
Proof. reflexivity. Qed.
Lemma fact_float : table_get prefix_fns token_FLOAT = Some "parseFloatLiteral"%string. Proof. reflexivity. Qed.
Lemma fact_string : table_get prefix_fns token_STRING = Some "parseStringLiteral"%string. Proof. reflexivity. Qed.
Lemma fact_true : table_get prefix_fns token_TRUE = Some "parseBoolean"%string. Proof. reflexivity. Qed.
Lemma fact_false : table_get prefix_fns token_FALSE = Some "parseBoolean"%string. Proof. reflexivity. Qed.
Lemma fact_eol_noprefix0 : table_get prefix_fns token_EOL = None. Proof. reflexivity. Qed.

(* one-token operands *)
Lemma parses_atom t a : atom_wf conv t a = true -> forall p, Parses p [pl t] (atom_node t a) tkok.
Proof.
  intros Hwf p pts tk s x s' Hm [Hk1 Hk2] Hs [f Hel].
  apply matches_cons_inv in Hm as (pt & pts' & -> & Hm & Hnil). apply matches_nil_inv in Hnil. subst pts'.
  apply matches_pl in Hm.
  cbn [app] in Hs. pose proof (view_cur _ _ _ Hs) as Hc. pose proof (view_peek _ _ _ _ Hs) as Hp.
  cbn [List.length Nat.sub skip] in Hel.
  assert (Hgo : forall fn, table_get prefix_fns (ttype t) = Some fn ->
                prefixFn conv (S f) fn s = ROk (Some (atom_node t a)) s -> exists f', pe f' p s = ROk x s').
  { intros fn Hfn Hpf. exists (S (S f)). eapply pe_head with (fn := fn) (s1 := s).
    - unfold curIs, pty. rewrite Hc, Hm. apply Z.eqb_neq. intros E. rewrite E, fact_eol_noprefix0 in Hfn. discriminate Hfn.
    - unfold pty. now rewrite Hc, Hm.
    - exact Hpf.
    - now rewrite Hp.
    - eapply exprLoop_mono; [|exact Hel]. lia. }
  destruct a as [|v|b| | |]; cbn [atom_wf atom_node] in *.
  - apply Z.eqb_eq in Hwf. apply (Hgo "parseIdentifier"%string); [rewrite Hwf; exact fact_ident|].
    rewrite prefixFn_ident. unfold parseIdentifier. rewrite Hp, Hk1, Hc, Hm. reflexivity.
  - apply andb_true_iff in Hwf as [Ht Hv]. apply Z.eqb_eq in Ht.
    destruct (conv_int conv (tlit t)) as [w|] eqn:Ew; [|discriminate]. apply Z.eqb_eq in Hv. subst w.
    apply (Hgo "parseIntegerLiteral"%string); [rewrite Ht; exact fact_int|].
    rewrite prefixFn_int. unfold parseIntegerLiteral. rewrite Hc, Hm, Ew. reflexivity.
  - apply andb_true_iff in Hwf as [Ht Hv]. apply Z.eqb_eq in Ht.
    destruct (conv_float conv (tlit t)) as [w|] eqn:Ew; [|discriminate]. apply N.eqb_eq in Hv. subst w.
    apply (Hgo "parseFloatLiteral"%string); [rewrite Ht; exact fact_float|].
    rewrite prefixFn_float. unfold parseFloatLiteral. rewrite Hc, Hm, Ew. reflexivity.
  - apply Z.eqb_eq in Hwf. apply (Hgo "parseStringLiteral"%string); [rewrite Hwf; exact fact_string|].
    rewrite prefixFn_string. now rewrite Hc, Hm.
  - apply (Hgo "parseBoolean"%string).
    + apply orb_true_iff in Hwf as [E|E]; apply Z.eqb_eq in E; rewrite E; [exact fact_true|exact fact_false].
    + rewrite prefixFn_bool. unfold curIs, pty. now rewrite Hc, Hm.
  - unfold has_prefix_fn in Hwf. destruct (table_get prefix_fns (ttype t)) as [g|] eqn:Eg; [|discriminate].
    apply String.eqb_eq in Hwf. subst g. apply (Hgo "parseControlExpression"%string); [reflexivity|].
    rewrite prefixFn_control. now rewrite Hc, Hm.
Qed.

Lemma map_nonempty {A B} (f : A -> B) l : map f l <> [] -> l <> [].
Proof. destruct l; cbn; congruence. Qed.

Definition isRP (t : ptok) : Prop := pk t = RP.

Lemma parses_paren ts n : ts <> [] -> Parses ast_LOWEST ts n isRP ->
  forall p, Parses p (pl LP :: ts ++ [pl RP]) n tkok.
Proof.
  intros Hne Hin p pts tk s x s' Hm [Hk1 Hk2] Hs [f0 Hel].
  apply matches_cons_inv in Hm as (lp & pts0 & -> & Hlp & Hm). apply matches_pl in Hlp.
  apply matches_app_inv in Hm as (pts1 & rps & -> & Hm1 & Hm2).
  apply matches_cons_inv in Hm2 as (rp & rps' & -> & Hrp & Hnil). apply matches_nil_inv in Hnil. subst rps'.
  apply matches_pl in Hrp.
  assert (Hp1 : pts1 <> []) by (eapply matches_nonempty; eassumption).
  pose proof (view_cur _ _ _ Hs) as Hc.
  set (s1 := nextToken s).
  assert (Hs1 : view s1 ((pts1 ++ [rp]) ++ [tk])) by (eapply view_next; exact Hs).
  assert (Hs1' : view s1 (pts1 ++ [rp])) by (eapply view_prefix; exact Hs1).
  assert (Hlen : List.length pts1 = List.length ts) by (now apply matches_length).
  destruct (view_at_last _ _ _ Hs1' Hp1) as [lastp Hsin].
  rewrite Hlen in Hsin. set (sin := skip (List.length ts - 1) s1) in *.
  pose proof (view_peek _ _ _ _ Hsin) as Hpk.
  assert (Hinner : exists f, pe f ast_LOWEST s1 = ROk (Some n) sin).
  { eapply (Hin pts1 rp); [exact Hm1|exact Hrp|exact Hs1'|].
    exists 1%nat. apply el_stop with (tk := rp); [|exact Hpk].
    right. unfold pty. rewrite Hrp. cbn [ttype RP]. rewrite fact_rparen_prec. lia. }
  destruct Hinner as [f1 Hpe].
  (* the state after the closing parenthesis sees [rp; tk] *)
  assert (Hsout : view (nextToken sin) [rp; tk]).
  { rewrite <- app_assoc in Hs1. apply view_skip in Hs1. rewrite Hlen in Hs1.
    replace (nextToken sin) with (skip (List.length ts) s1); [exact Hs1|].
    unfold sin. change (nextToken (skip (List.length ts - 1) s1)) with (skip 1 (skip (List.length ts - 1) s1)).
    rewrite <- skip_add. f_equal. destruct ts; [congruence|cbn; lia]. }
  pose proof (view_peek _ _ _ _ Hsout) as Hpk2.
  set (F := Nat.max f0 f1).
  exists (S (S (S F))).
  eapply pe_head with (fn := "parseGroupedExpression"%string) (s1 := nextToken sin) (left := Some n).
  - unfold curIs, pty. rewrite Hc, Hlp. reflexivity.
  - unfold pty. rewrite Hc, Hlp. exact fact_lparen.
  - rewrite prefixFn_group, parseGroupedExpression_S. fold s1.
    rewrite (parseExpression_mono conv f1 F ast_LOWEST s1 _ _ (Nat.le_max_r f0 f1) Hpe).
    unfold peekIs, expectPeek, peekIs. rewrite Hpk. unfold pty. rewrite Hrp. reflexivity.
  - now rewrite Hpk2.
  - eapply exprLoop_mono with (f := f0); [unfold F; lia|].
    replace (nextToken sin) with (skip (List.length (pl LP :: ts ++ [pl RP]) - 1) s); [exact Hel|].
    unfold sin, s1.
    change (nextToken (skip (List.length ts - 1) (nextToken s))) with (skip 1 (skip (List.length ts - 1) (skip 1 s))).
    rewrite <- !skip_add. f_equal.
    cbn [List.length]. rewrite app_length. cbn [List.length].
    destruct ts; [congruence|]. cbn [List.length]. lia.
Qed.

Lemma parses_prefix op ts n (K : ptok -> Prop) : is_prefix_op (ttype op) = true -> ts <> [] ->
  Parses ast_PREFIX ts n K ->
  forall p, Parses p (pl op :: ts) (NPrefix op (Some n)) (fun tk => K tk /\ tkok tk /\ stops ast_PREFIX tk).
Proof.
  intros Hop Hne Hin p pts tk s x s' Hm (HK & [Hk1 Hk2] & Hst) Hs [f0 Hel].
  apply matches_cons_inv in Hm as (pop & pts1 & -> & Hpop & Hm1). apply matches_pl in Hpop.
  assert (Hp1 : pts1 <> []) by (eapply matches_nonempty; eassumption).
  pose proof (view_cur _ _ _ Hs) as Hc.
  set (s1 := nextToken s).
  assert (Hs1 : view s1 (pts1 ++ [tk])) by (eapply view_next; exact Hs).
  assert (Hlen : List.length pts1 = List.length ts) by (now apply matches_length).
  destruct (view_at_last _ _ _ Hs1 Hp1) as [lastp Hsin].
  rewrite Hlen in Hsin. set (sin := skip (List.length ts - 1) s1) in *.
  pose proof (view_peek _ _ _ _ Hsin) as Hpk.
  assert (Hinner : exists f, pe f ast_PREFIX s1 = ROk (Some n) sin).
  { eapply (Hin pts1 tk); [exact Hm1|exact HK|exact Hs1|].
    exists 1%nat. now apply el_stop with (tk := tk). }
  destruct Hinner as [f1 Hpe].
  set (F := Nat.max f0 f1).
  exists (S (S F)).
  eapply pe_head with (fn := "parsePrefixExpression"%string) (s1 := sin) (left := Some (NPrefix op (Some n))).
  - unfold curIs, pty. rewrite Hc, Hpop. pose proof (prefix_op_ok _ Hop) as E. unfold preop_ok in E.
    repeat (apply andb_true_iff in E as [E ?]). now apply negb_true_iff in E.
  - unfold pty. rewrite Hc, Hpop. now apply prefix_op_fn.
  - rewrite prefixFn_prefix. fold s1.
    rewrite (parseExpression_mono conv f1 F ast_PREFIX s1 _ _ (Nat.le_max_r f0 f1) Hpe). now rewrite Hc, Hpop.
  - now rewrite Hpk.
  - eapply exprLoop_mono with (f := f0); [unfold F; lia|].
    replace sin with (skip (List.length (pl op :: ts) - 1) s); [exact Hel|].
    unfold sin, s1. cbn [List.length]. destruct ts; [congruence|]. cbn [List.length].
    replace (S (S (List.length ts)) - 1)%nat with (S (List.length ts)) by lia.
    replace (S (List.length ts) - 1)%nat with (List.length ts) by lia. reflexivity.
Qed.

Definition hd_not_rbracket (ts : list mtok) : Prop :=
  match ts with t :: _ => ttype (fst t) <> token_RBRACKET | [] => False end.

Lemma parses_bin op tsl tsr nl nr (KL KR : ptok -> Prop) :
  is_bin_op (ttype op) = true -> tsl <> [] -> hd_not_rbracket tsr ->
  forall p, p < precedence_of (ttype op) ->
  Parses p tsl nl KL -> Parses (precedence_of (ttype op)) tsr nr KR ->
  (forall pt, pk pt = op -> KL pt) ->
  Parses p (tsl ++ [pl op] ++ tsr) (NInfix op (Some nl) (Some nr))
         (fun tk => KR tk /\ stops (precedence_of (ttype op)) tk).
Proof.
  intros Hop Hnl Hhd p Hp HL HR HKL pts tk s x s' Hm [HK Hst] Hs [f0 Hel].
  set (q := precedence_of (ttype op)) in *.
  apply matches_app_inv in Hm as (ptsl & rest & -> & Hml & Hm2).
  cbn [app] in Hm2. apply matches_cons_inv in Hm2 as (pop & ptsr & -> & Hpop & Hmr). apply matches_pl in Hpop.
  assert (Hpl : ptsl <> []) by (eapply matches_nonempty; eassumption).
  assert (Hnr : tsr <> []) by (destruct tsr; [contradiction|discriminate]).
  assert (Hpr : ptsr <> []) by (eapply matches_nonempty; eassumption).
  assert (Hlenl : List.length ptsl = List.length tsl) by (now apply matches_length).
  assert (Hlenr : List.length ptsr = List.length tsr) by (now apply matches_length).
  pose proof (bin_op_ok _ Hop) as Hok. unfold binop_ok in Hok. cbv zeta in Hok. fold q in Hok.
  repeat (apply andb_true_iff in Hok as [Hok ?]).
  (* views: left operand and operator; operator, right operand and follower *)
  assert (Hs0 : view s (ptsl ++ [pop] ++ (ptsr ++ [tk]))) by (rewrite <- app_assoc in Hs; exact Hs).
  assert (HvL : view s (ptsl ++ [pop])) by (rewrite app_assoc in Hs0; eapply view_prefix; exact Hs0).
  destruct (view_at_last _ _ _ HvL Hpl) as [lastl HsL].
  rewrite Hlenl in HsL. set (sL := skip (List.length tsl - 1) s) in *.
  pose proof (view_peek _ _ _ _ HsL) as HpkL.
  assert (HsI : view (nextToken sL) (pop :: ptsr ++ [tk])).
  { apply view_skip in Hs0. rewrite Hlenl in Hs0.
    replace (nextToken sL) with (skip (List.length tsl) s); [exact Hs0|].
    unfold sL. change (nextToken (skip (List.length tsl - 1) s)) with (skip 1 (skip (List.length tsl - 1) s)).
    rewrite <- skip_add. f_equal. destruct tsl; [congruence|cbn; lia]. }
  pose proof (view_cur _ _ _ HsI) as HcI.
  destruct ptsr as [|r1 ptsr']; [congruence|].
  pose proof (view_peek _ _ _ _ HsI) as HpkI.
  set (sR := nextToken (nextToken sL)).
  assert (HsR : view sR ((r1 :: ptsr') ++ [tk])) by (eapply view_next; exact HsI).
  destruct (view_at_last _ _ _ HsR Hpr) as [lastr HsE].
  rewrite Hlenr in HsE. set (sE := skip (List.length tsr - 1) sR) in *.
  pose proof (view_peek _ _ _ _ HsE) as HpkE.
  assert (Hright : exists f, pe f q sR = ROk (Some nr) sE).
  { eapply (HR (r1 :: ptsr') tk); [exact Hmr|exact HK|exact HsR|].
    exists 1%nat. now apply el_stop with (tk := tk). }
  destruct Hright as [f1 Hpe].
  set (F := Nat.max f0 f1).
  (* the expression loop entered after the left operand consumes the operator and the right operand *)
  assert (Hloop : el (S (S F)) p (Some nl) sL = ROk x s').
  { rewrite exprLoop_S. unfold peekIs, peekPrecedence. rewrite HpkL. unfold pty. rewrite Hpop.
    fold q.
    match goal with H : negb (ttype op =? token_SEMICOLON) = true |- _ => apply negb_true_iff in H; rewrite H end.
    replace (p <? q) with true by (symmetry; now apply Z.ltb_lt). cbn [negb andb]. cbv zeta.
    rewrite (bin_op_fn _ Hop).
    repeat match goal with H : negb (ttype op =? _) = true |- _ => apply negb_true_iff in H; rewrite ?H end.
    cbn [orb andb].
    rewrite infixFn_bin. unfold curPrecedence, peekIs. rewrite HcI, HpkI. unfold pty. rewrite Hpop. fold q.
    replace (ttype (pk r1) =? token_RBRACKET) with false.
    2:{ symmetry. apply Z.eqb_neq. destruct tsr as [|t1 tsr']; [contradiction|].
        inversion Hmr as [|? ? ? ? [Hr1 _] _]; subst. rewrite Hr1. exact Hhd. }
    rewrite andb_false_r. fold sR.
    rewrite (parseExpression_mono conv f1 F q sR _ _ (Nat.le_max_r f0 f1) Hpe).
    eapply exprLoop_mono with (f := f0); [unfold F; lia|].
    replace sE with (skip (List.length (tsl ++ [pl op] ++ tsr) - 1) s); [exact Hel|].
    unfold sE, sR, sL.
    change (nextToken (nextToken (skip (List.length tsl - 1) s))) with (skip 1 (skip 1 (skip (List.length tsl - 1) s))).
    rewrite <- !skip_add. f_equal. rewrite !app_length. cbn [List.length].
    destruct tsl; [congruence|]. destruct tsr; [congruence|]. cbn [List.length]. lia. }
  eapply (HL ptsl pop); [exact Hml|now apply HKL|exact HvL|].
  exists (S (S F)). exact Hloop.
Qed.

Lemma parses_weaken p ts n (K K' : ptok -> Prop) : (forall tk, K' tk -> K tk) -> Parses p ts n K -> Parses p ts n K'.
Proof. intros HKK H pts tk s x s' Hm HK'. apply H; [exact Hm|now apply HKK]. Qed.

(* ---------- monotonicity of the list functions, from Parser_mono ---------- *)
Lemma exprListLoop_mono f f' endt acc s x s' : (f <= f')%nat ->
  exprListLoop conv f endt acc s = ROk x s' -> exprListLoop conv f' endt acc s = ROk x s'.
Proof.
  induction 1 as [|f' Hle IH]; [auto|]. intros H.
  destruct (mono_all conv f') as (_ & _ & _ & _ & _ & _ & _ & _ & _ & _ & _ & HELL & _). apply HELL, IH, H.
Qed.
Lemma parseExpressionList_mono f f' endt s x s' : (f <= f')%nat ->
  parseExpressionList conv f endt s = ROk x s' -> parseExpressionList conv f' endt s = ROk x s'.
Proof.
  induction 1 as [|f' Hle IH]; [auto|]. intros H.
  destruct (mono_all conv f') as (_ & _ & _ & _ & _ & _ & _ & _ & _ & _ & HEL & _). apply HEL, IH, H.
Qed.

(* ---------- the shape of body ---------- *)
Lemma body_pre op r : body (EPre op r) = pl op :: toks ast_PREFIX r. Proof. reflexivity. Qed.
Lemma body_bin op l r :
  body (EBin op l r) = toks (precedence_of (ttype op)) l ++ [pl op] ++ toks (right_ctx op r) r.
Proof. reflexivity. Qed.
Lemma body_index t l i :
  body (EIndex t l i) = toks (precedence_of (ttype t)) l ++ [(t, true)] ++ toks ast_LOWEST i ++ [pl RB].
Proof. reflexivity. Qed.
Lemma body_call t f args : body (ECall t f args) = toks ast_CALL f ++ [(t, true)] ++ arg_toks args ++ [pl RP].
Proof.
  reflexivity.
Qed.

(* induction over ex with the argument lists *)
Section ex_ind2.
  Variable P : ex -> Prop.
  Hypothesis H_atom : forall t a, P (EAtom t a).
  Hypothesis H_pre : forall op e, P e -> P (EPre op e).
  Hypothesis H_bin : forall op l r, P l -> P r -> P (EBin op l r).
  Hypothesis H_call : forall t f args, P f -> Forall P args -> P (ECall t f args).
  Hypothesis H_index : forall t l i, P l -> P i -> P (EIndex t l i).
  Fixpoint ex_ind2 (e : ex) : P e :=
    match e return P e with
    | EAtom t a => H_atom t a
    | EPre op r => H_pre op r (ex_ind2 r)
    | EBin op l r => H_bin op l r (ex_ind2 l) (ex_ind2 r)
    | ECall t f args =>
      H_call t f args (ex_ind2 f)
        ((fix go (l : list ex) : Forall P l :=
            match l return Forall P l with [] => Forall_nil _ | a :: r => Forall_cons a (ex_ind2 a) (go r) end) args)
    | EIndex t l i => H_index t l i (ex_ind2 l) (ex_ind2 i)
    end.
End ex_ind2.

(* ---------- arithmetic of the printer's decisions ---------- *)
Lemma fact_levels : ast_PREFIX = 11 /\ ast_LOWEST = 1 /\ ast_CALL = 12 /\
  precedence_of token_LPAREN = 12 /\ precedence_of token_LBRACKET = 13 /\
  precedence_of token_COMMA = 1 /\ precedence_of token_RBRACKET = 1.
Proof. vm_compute. repeat split. Qed.

Lemma bin_q op : is_bin_op (ttype op) = true -> 1 < precedence_of (ttype op) < 11.
Proof.
  intros H. apply bin_op_ok in H. unfold binop_ok in H. cbv zeta in H.
  repeat (apply andb_true_iff in H as [H ?]).
  destruct fact_prefix_val as (E1 & E2 & _). rewrite E2 in H. rewrite E1 in *. lia.
Qed.

Lemma lvl_low e : wf_ex conv e = true -> 1 < lvl e.
Proof.
  destruct fact_levels as (E11 & E1 & E12 & _).
  destruct e as [t a|op r|op l r|t f args|t l i]; cbn [lvl wf_ex]; intros H; rewrite ?E11, ?E12; try lia.
  repeat (apply andb_true_iff in H as [H ?]). pose proof (bin_q _ H). lia.
Qed.

Lemma unparen_lvl c e : wf_ex conv e = true -> paren c e = false -> c <= 11 -> c <= lvl e.
Proof.
  destruct fact_levels as (E11 & E1 & E12 & _).
  destruct e as [t a|op r|op l r|t f args|t l i]; cbn [lvl paren]; intros _ H Hc; rewrite ?E11, ?E12 in *; lia.
Qed.

Lemma follow_of_stops e q tk : stops q tk -> q <= lvl e -> follow e tk.
Proof.
  intros [H|[H|H]] Hq; destruct e; cbn [follow]; try exact I; unfold stops; try (now left);
    try (right; right; exact H); right; left; lia.
Qed.

Lemma right_lvl op l r : wf_ex conv (EBin op l r) = true ->
  paren (right_ctx op r) r = false -> precedence_of (ttype op) < lvl r /\ right_ctx op r <= 11.
Proof.
  cbn [wf_ex]. intros H Hp. repeat (apply andb_true_iff in H as [H ?]).
  pose proof (bin_q _ H) as Hq. destruct fact_levels as (E11 & E1 & E12 & _).
  destruct r as [t a|rop rr|rop rl rr|t f args|t rl ri]; cbn [lvl right_ctx paren] in *; rewrite ?E11, ?E12 in *; try lia.
  match goal with X : negb _ = true |- _ => apply negb_true_iff in X; rewrite X in * end. lia.
Qed.

Lemma atom_has_prefix t a : atom_wf conv t a = true -> table_get prefix_fns (ttype t) <> None.
Proof.
  destruct a as [|v|b| | |]; cbn [atom_wf]; intros H.
  - apply Z.eqb_eq in H. rewrite H. discriminate.
  - apply andb_true_iff in H as [H _]. apply Z.eqb_eq in H. rewrite H. discriminate.
  - apply andb_true_iff in H as [H _]. apply Z.eqb_eq in H. rewrite H. discriminate.
  - apply Z.eqb_eq in H. rewrite H. discriminate.
  - apply orb_true_iff in H as [H|H]; apply Z.eqb_eq in H; rewrite H; discriminate.
  - unfold has_prefix_fn in H. destruct (table_get prefix_fns (ttype t)); [discriminate|discriminate H].
Qed.

Definition hd_prefix (ts : list mtok) : Prop :=
  match ts with t :: _ => table_get prefix_fns (ttype (fst t)) <> None | [] => False end.
Lemma hd_prefix_app a b : hd_prefix a -> hd_prefix (a ++ b).
Proof. destruct a; [contradiction|auto]. Qed.
Lemma hd_prefix_lp ts : hd_prefix (pl LP :: ts). Proof. cbn. discriminate. Qed.

(* the first token of body e has a prefix parse function *)
Lemma body_hd_prefix e : wf_ex conv e = true -> hd_prefix (body e).
Proof.
  assert (W : forall c x, hd_prefix (body x) -> hd_prefix (toks c x))
    by (intros c x Hx; unfold toks; destruct (paren c x); [apply hd_prefix_lp|exact Hx]).
  induction e as [t a|op r IH|op l r IHl IHr|t f args IHf IHa|t l i IHl IHi] using ex_ind2; intros H; cbn [wf_ex] in H.
  - cbn. now apply atom_has_prefix in H.
  - rewrite body_pre. apply andb_true_iff in H as [H _]. apply prefix_op_fn in H. cbn [hd_prefix pl fst]. rewrite H. discriminate.
  - rewrite body_bin. repeat (apply andb_true_iff in H as [H ?]). apply hd_prefix_app, W, IHl. assumption.
  - rewrite body_call. repeat (apply andb_true_iff in H as [H ?]). apply hd_prefix_app, W, IHf. assumption.
  - rewrite body_index. repeat (apply andb_true_iff in H as [H ?]). apply hd_prefix_app, W, IHl. assumption.
Qed.

Lemma body_nonempty e : body e <> [].
Proof. destruct e; cbn [body]; try discriminate; intros H; apply app_eq_nil in H as [_ H]; discriminate H. Qed.
Lemma toks_nonempty c e : toks c e <> [].
Proof. unfold toks. destruct (paren c e); [discriminate|apply body_nonempty]. Qed.
Lemma toks_hd_prefix c e : wf_ex conv e = true -> hd_prefix (toks c e).
Proof. intros H. unfold toks. destruct (paren c e); [apply hd_prefix_lp|now apply body_hd_prefix]. Qed.

Lemma hd_prefix_not_rbracket ts : hd_prefix ts -> hd_not_rbracket ts.
Proof. destruct ts as [|t l]; [auto|]. cbn [hd_prefix hd_not_rbracket]. intros H E. rewrite E, fact_rbracket_noprefix in H. now apply H. Qed.
Lemma toks_hd c e : wf_ex conv e = true -> hd_not_rbracket (toks c e).
Proof. intros H. now apply hd_prefix_not_rbracket, toks_hd_prefix. Qed.

(* the follower conditions of the two statements *)
Definition KB (e : ex) (tk : ptok) : Prop := tkok tk /\ follow e tk.
Definition KT (c : Z) (e : ex) (tk : ptok) : Prop := tkok tk /\ (paren c e = false -> follow e tk).

Definition BodyOk (e : ex) : Prop := forall p, p < lvl e -> Parses p (body e) (to_node e) (KB e).
Definition ToksOk (e : ex) : Prop :=
  forall c p, (paren c e = false -> p < lvl e) -> Parses p (toks c e) (to_node e) (KT c e).

Lemma rp_tkok rp : pk rp = RP -> tkok rp.
Proof. intros H. unfold tkok, pty. rewrite H. cbn [ttype RP]. split; [exact fact_rparen_nopostfix|discriminate]. Qed.

Lemma toks_of_body e : wf_ex conv e = true -> BodyOk e -> ToksOk e.
Proof.
  intros Hwf HB c p Hp. unfold toks. destruct (paren c e) eqn:Epar.
  - eapply parses_weaken; [|apply parses_paren; [apply body_nonempty|]].
    + intros tk [H _]. exact H.
    + eapply parses_weaken; [|apply HB].
      * intros rp Hrp. split; [now apply rp_tkok|].
        apply follow_of_stops with (q := 1).
        -- right. left. unfold pty. rewrite Hrp. cbn [ttype RP]. rewrite fact_rparen_prec.
           destruct fact_prefix_val as (_ & -> & _). lia.
        -- pose proof (lvl_low _ Hwf). lia.
      * destruct fact_prefix_val as (_ & -> & _). now apply lvl_low.
  - eapply parses_weaken; [|apply HB; now apply Hp].
    intros tk [H1 H2]. split; [exact H1|now apply H2].
Qed.

(* ---------- calls ---------- *)
Lemma fact_call_fn : table_get infix_fns token_LPAREN = Some "parseCallExpression"%string. Proof. reflexivity. Qed.
Lemma fact_index_fn : table_get infix_fns token_LBRACKET = Some "parseIndexExpression"%string. Proof. reflexivity. Qed.
Lemma fact_rparen_noprefix : table_get prefix_fns token_RPAREN = None. Proof. reflexivity. Qed.
Lemma fact_comma_nopostfix : table_get postfix_fns token_COMMA = None. Proof. reflexivity. Qed.
Lemma fact_rbracket_nopostfix : table_get postfix_fns token_RBRACKET = None. Proof. reflexivity. Qed.

Lemma infixFn_call f left s : infixFn conv (S f) "parseCallExpression" left s =
  (dob (l, s1) <- parseExpressionList conv f token_RPAREN s; ROk (Some (NCall (pk (ps_cur s)) left l)) s1).
Proof. reflexivity. Qed.
Lemma infixFn_index f left s : infixFn conv (S f) "parseIndexExpression" left s =
  (let t := pk (ps_cur s) in
   let isDot := Z.eqb (ttype t) token_DOT in
   dob (i, s1) <- pe f (if isDot then ast_DOTINDEX else ast_LOWEST) (nextToken s);
   if isDot then ROk (Some (NIndex t left i)) s1
   else let '(ok, s2) := expectPeek s1 token_RBRACKET in
        if ok then ROk (Some (NIndex t left i)) s2 else ROk None s2).
Proof. reflexivity. Qed.

(* what follows an argument or an index: `,` `)` `]` *)
Definition sep_tok (tk : ptok) : Prop := pk tk = CM \/ pk tk = RP \/ pk tk = RB.
Lemma sep_KT a tk : wf_ex conv a = true -> sep_tok tk -> KT ast_LOWEST a tk.
Proof.
  intros Hwf Hs. destruct fact_levels as (_ & E1 & _ & _ & _ & Ecm & Erb).
  assert (Hst : stops 1 tk).
  { right. left. unfold pty. destruct Hs as [->|[->| ->]]; cbn [ttype CM RP RB].
    - rewrite Ecm. lia. - rewrite fact_rparen_prec, E1. lia. - rewrite Erb. lia. }
  split.
  - unfold tkok, pty. destruct Hs as [->|[->| ->]]; cbn [ttype CM RP RB]; split; try discriminate;
      [exact fact_comma_nopostfix|exact fact_rparen_nopostfix|exact fact_rbracket_nopostfix].
  - intros _. apply follow_of_stops with (q := 1); [exact Hst|]. pose proof (lvl_low a Hwf). lia.
Qed.

(* one argument (or index) parsed at the lowest level stops in front of the separator *)
Lemma parse_operand a : wf_ex conv a = true -> ToksOk a ->
  forall pts tk s, matches pts (toks ast_LOWEST a) -> sep_tok tk -> view s (pts ++ [tk]) ->
  exists f, pe f ast_LOWEST s = ROk (Some (to_node a)) (skip (List.length pts - 1) s).
Proof.
  intros Hwf HT pts tk s Hm Hs Hv.
  assert (Hpn : pts <> []) by (eapply matches_nonempty; [exact Hm|apply toks_nonempty]).
  destruct (view_at_last _ _ _ Hv Hpn) as [lastp Hse].
  pose proof (view_peek _ _ _ _ Hse) as Hpk.
  pose proof (matches_length _ _ Hm) as Hlen.
  destruct fact_levels as (_ & E1 & _).
  eapply (HT ast_LOWEST ast_LOWEST ltac:(intros _; rewrite E1; now apply lvl_low) pts tk); [exact Hm|now apply sep_KT|exact Hv|].
  rewrite <- Hlen. exists 1%nat. apply el_stop with (tk := tk); [|exact Hpk].
  destruct (sep_KT a tk Hwf Hs) as [_ _]. right. left.
  destruct fact_levels as (_ & E1' & _ & _ & _ & Ecm & Erb). unfold pty.
  destruct Hs as [->|[->| ->]]; cbn [ttype CM RP RB]; rewrite ?Ecm, ?fact_rparen_prec, ?Erb, ?E1'; lia.
Qed.

(* the tokens after the first argument: `, a2 , a3 ...` *)
Fixpoint rest_toks (l : list ex) : list mtok :=
  match l with [] => [] | a :: r => pl CM :: toks ast_LOWEST a ++ rest_toks r end.
Lemma arg_toks_cons a r : arg_toks (a :: r) = toks ast_LOWEST a ++ rest_toks r.
Proof.
  revert a. induction r as [|b r IH]; intros a; cbn [arg_toks rest_toks]; [now rewrite app_nil_r|].
  f_equal. f_equal. exact (IH b).
Qed.

Definition ArgsOk (l : list ex) : Prop := Forall (fun a => wf_ex conv a = true /\ ToksOk a) l.

Lemma args_loop rest : ArgsOk rest ->
  forall acc lastp pts rp tk s, matches pts (rest_toks rest) -> pk rp = RP ->
  view s (lastp :: pts ++ [rp; tk]) ->
  exists f, exprListLoop conv f token_RPAREN acc s
            = ROk (Some (acc ++ map (fun a => Some (to_node a)) rest)) (skip (S (List.length pts)) s).
Proof.
  induction 1 as [|a rest [Hwf HT] _ IH]; intros acc lastp pts rp tk s Hm Hrp Hv.
  - apply matches_nil_inv in Hm. subst pts. cbn [app List.length] in *.
    pose proof (view_peek _ _ _ _ Hv) as Hpk.
    exists 1%nat. rewrite exprListLoop_S. unfold peekIs, expectPeek, peekIs. rewrite Hpk. unfold pty. rewrite Hrp.
    cbn. now rewrite app_nil_r.
  - cbn [rest_toks] in Hm. apply matches_cons_inv in Hm as (cm & pts0 & -> & Hcm & Hm). apply matches_pl in Hcm.
    apply matches_app_inv in Hm as (ptsa & ptsr & -> & Hma & Hmr).
    assert (Hpa : ptsa <> []) by (eapply matches_nonempty; [exact Hma|apply toks_nonempty]).
    pose proof (view_peek _ _ _ _ Hv) as Hpk.
    (* the state at the first token of a *)
    set (s2 := nextToken (nextToken s)).
    assert (Hv2 : view s2 (ptsa ++ ptsr ++ [rp; tk])).
    { unfold s2. apply view_next with (a := cm). apply view_next with (a := lastp).
      cbn [app] in Hv. rewrite <- app_assoc in Hv. exact Hv. }
    (* what follows a: a comma or the closing parenthesis *)
    assert (Hsep : exists tka more, ptsr ++ [rp; tk] = tka :: more /\ sep_tok tka).
    { destruct rest as [|b rest'].
      - apply matches_nil_inv in Hmr. subst ptsr. exists rp, [tk]. split; [reflexivity|]. right. left. exact Hrp.
      - cbn [rest_toks] in Hmr. apply matches_cons_inv in Hmr as (c2 & p2 & -> & Hc2 & _). apply matches_pl in Hc2.
        exists c2, (p2 ++ [rp; tk]). split; [reflexivity|]. left. exact Hc2. }
    destruct Hsep as (tka & more & Esep & Hsep). rewrite Esep in Hv2.
    assert (Hv2' : view s2 (ptsa ++ [tka])) by (apply view_prefix with (l2 := more); now rewrite <- app_assoc).
    destruct (parse_operand a Hwf HT ptsa tka s2 Hma Hsep Hv2') as [f1 Hpe].
    set (sa := skip (List.length ptsa - 1) s2) in *.
    (* the loop continues from the last token of a *)
    destruct (exists_last Hpa) as [ini [lasta Ela]].
    assert (Hva : view sa (lasta :: ptsr ++ [rp; tk])).
    { unfold sa. rewrite Ela, app_length. cbn [List.length]. replace (List.length ini + 1 - 1)%nat with (List.length ini) by lia.
      apply view_skip with (l1 := ini). rewrite <- Esep in Hv2. rewrite Ela, <- app_assoc in Hv2. exact Hv2. }
    destruct (IH (acc ++ [Some (to_node a)]) lasta ptsr rp tk sa Hmr Hrp Hva) as [f2 Hloop].
    set (F := Nat.max f1 f2).
    exists (S F). rewrite exprListLoop_S. unfold peekIs. rewrite Hpk. unfold pty. rewrite Hcm. cbn [ttype CM].
    rewrite Z.eqb_refl. fold s2.
    rewrite (parseExpression_mono conv f1 F ast_LOWEST s2 _ _ (Nat.le_max_l f1 f2) Hpe). fold sa.
    rewrite (exprListLoop_mono f2 F _ _ _ _ _ (Nat.le_max_r f1 f2) Hloop).
    f_equal.
    + cbn [map]. now rewrite <- app_assoc.
    + unfold sa, s2. change (nextToken (nextToken s)) with (skip 2 s). rewrite <- !skip_add. f_equal.
      cbn [List.length]. rewrite app_length. destruct ptsa; [congruence|]. cbn [List.length]. lia.
Qed.

Lemma args_list args : ArgsOk args ->
  forall lp pts rp tk s, matches pts (arg_toks args) -> pk rp = RP ->
  view s (lp :: pts ++ [rp; tk]) ->
  exists f, parseExpressionList conv f token_RPAREN s
            = ROk (Some (map (fun a => Some (to_node a)) args)) (skip (S (List.length pts)) s).
Proof.
  intros HA lp pts rp tk s Hm Hrp Hv. destruct args as [|a rest].
  - apply matches_nil_inv in Hm. subst pts. cbn [app List.length] in *.
    pose proof (view_peek _ _ _ _ Hv) as Hpk.
    exists 1%nat. rewrite parseExpressionList_S. unfold peekIs. rewrite Hpk. unfold pty. rewrite Hrp. reflexivity.
  - rewrite arg_toks_cons in Hm. apply matches_app_inv in Hm as (ptsa & ptsr & -> & Hma & Hmr).
    inversion HA as [|? ? [Hwf HT] HA']; subst.
    assert (Hpa : ptsa <> []) by (eapply matches_nonempty; [exact Hma|apply toks_nonempty]).
    set (s2 := nextToken s).
    assert (Hv2 : view s2 (ptsa ++ ptsr ++ [rp; tk])).
    { unfold s2. apply view_next with (a := lp). cbn [app] in Hv. rewrite <- app_assoc in Hv. exact Hv. }
    assert (Hsep : exists tka more, ptsr ++ [rp; tk] = tka :: more /\ sep_tok tka).
    { destruct rest as [|b rest'].
      - apply matches_nil_inv in Hmr. subst ptsr. exists rp, [tk]. split; [reflexivity|]. right. left. exact Hrp.
      - cbn [rest_toks] in Hmr. apply matches_cons_inv in Hmr as (c2 & p2 & -> & Hc2 & _). apply matches_pl in Hc2.
        exists c2, (p2 ++ [rp; tk]). split; [reflexivity|]. left. exact Hc2. }
    destruct Hsep as (tka & more & Esep & Hsep). rewrite Esep in Hv2.
    assert (Hv2' : view s2 (ptsa ++ [tka])) by (apply view_prefix with (l2 := more); now rewrite <- app_assoc).
    destruct (parse_operand a Hwf HT ptsa tka s2 Hma Hsep Hv2') as [f1 Hpe].
    set (sa := skip (List.length ptsa - 1) s2) in *.
    destruct (exists_last Hpa) as [ini [lasta Ela]].
    assert (Hva : view sa (lasta :: ptsr ++ [rp; tk])).
    { unfold sa. rewrite Ela, app_length. cbn [List.length]. replace (List.length ini + 1 - 1)%nat with (List.length ini) by lia.
      apply view_skip with (l1 := ini). rewrite <- Esep in Hv2. rewrite Ela, <- app_assoc in Hv2. exact Hv2. }
    destruct (args_loop rest HA' [Some (to_node a)] lasta ptsr rp tk sa Hmr Hrp Hva) as [f2 Hloop].
    set (F := Nat.max f1 f2).
    (* the first token of a is not `)` *)
    assert (Hnrp : peekIs s token_RPAREN = false).
    { pose proof (toks_hd_prefix ast_LOWEST a Hwf) as Hh.
      destruct ptsa as [|p1 ptsa']; [congruence|]. cbn [app] in Hv.
      pose proof (view_peek _ _ _ _ Hv) as Hpk. unfold peekIs. rewrite Hpk.
      destruct (toks ast_LOWEST a) as [|m1 ms]; [contradiction|].
      apply matches_cons_inv in Hma as (p1' & ? & Ep & [Hp1 _] & _). injection Ep as <- _.
      cbn [hd_prefix] in Hh. unfold pty. rewrite Hp1.
      apply Z.eqb_neq. intros X. rewrite X, fact_rparen_noprefix in Hh. now apply Hh. }
    exists (S F). rewrite parseExpressionList_S, Hnrp. fold s2.
    rewrite (parseExpression_mono conv f1 F ast_LOWEST s2 _ _ (Nat.le_max_l f1 f2) Hpe). fold sa.
    rewrite (exprListLoop_mono f2 F _ _ _ _ _ (Nat.le_max_r f1 f2) Hloop).
    f_equal. unfold sa, s2. change (nextToken s) with (skip 1 s). rewrite <- !skip_add. f_equal.
    rewrite app_length. destruct ptsa; [congruence|]. cbn [List.length]. lia.
Qed.

(* f(a1, ..., an): callee parsed first, then the expression loop takes the glued `(` as a call *)
Lemma parses_call t f args (K : ptok -> Prop) :
  ttype t = token_LPAREN -> ArgsOk args ->
  forall p, p < ast_CALL ->
  Parses p (toks ast_CALL f) (to_node f) K ->
  (forall pt, pk pt = t -> K pt) ->
  Parses p (toks ast_CALL f ++ [(t, true)] ++ arg_toks args ++ [pl RP])
         (NCall t (Some (to_node f)) (Some (map (fun a => Some (to_node a)) args))) (fun _ => True).
Proof.
  intros Ht HA p Hp HF HK pts tk s x s' Hm _ Hs [f0 Hel].
  apply matches_app_inv in Hm as (ptsf & rest & -> & Hmf & Hm2).
  cbn [app] in Hm2. apply matches_cons_inv in Hm2 as (lp & rest2 & -> & [Hlp Hws] & Hm3).
  cbn [fst snd] in Hlp, Hws. specialize (Hws eq_refl).
  apply matches_app_inv in Hm3 as (ptsa & rps & -> & Hma & Hm4).
  apply matches_cons_inv in Hm4 as (rp & rps' & -> & Hrp & Hnil). apply matches_nil_inv in Hnil. subst rps'.
  apply matches_pl in Hrp.
  assert (Hpf : ptsf <> []) by (eapply matches_nonempty; [exact Hmf|apply toks_nonempty]).
  pose proof (matches_length _ _ Hmf) as Hlenf. pose proof (matches_length _ _ Hma) as Hlena.
  (* the callee and the parenthesis *)
  assert (Hs0 : view s (ptsf ++ lp :: ptsa ++ [rp; tk])).
  { rewrite <- !app_assoc in Hs. cbn [app] in Hs. rewrite <- app_assoc in Hs. exact Hs. }
  assert (HvF : view s (ptsf ++ [lp])).
  { apply view_prefix with (l2 := ptsa ++ [rp; tk]). rewrite <- app_assoc. exact Hs0. }
  destruct (view_at_last _ _ _ HvF Hpf) as [lastf HsF]. rewrite Hlenf in HsF.
  set (sF := skip (List.length (toks ast_CALL f) - 1) s) in *.
  pose proof (view_peek _ _ _ _ HsF) as HpkF.
  assert (HsL : view (nextToken sF) (lp :: ptsa ++ [rp; tk])).
  { apply view_skip in Hs0. rewrite Hlenf in Hs0.
    replace (nextToken sF) with (skip (List.length (toks ast_CALL f)) s); [exact Hs0|].
    unfold sF. change (nextToken (skip ?k s)) with (skip 1 (skip k s)). rewrite <- skip_add. f_equal.
    pose proof (toks_nonempty ast_CALL f). destruct (toks ast_CALL f); [congruence|cbn; lia]. }
  pose proof (view_cur _ _ _ HsL) as HcL.
  destruct (args_list args HA lp ptsa rp tk (nextToken sF) Hma Hrp HsL) as [f1 Hargs].
  set (sE := skip (S (List.length ptsa)) (nextToken sF)) in *.
  set (F := Nat.max f0 f1).
  destruct fact_levels as (_ & _ & E12 & Elp & _).
  assert (Hloop : el (S (S F)) p (Some (to_node f)) sF = ROk x s').
  { rewrite exprLoop_S. unfold peekIs, peekPrecedence. rewrite HpkF. unfold pty. rewrite Hlp, Ht.
    replace (token_LPAREN =? token_SEMICOLON) with false by reflexivity.
    rewrite Elp. replace (p <? 12) with true by (symmetry; apply Z.ltb_lt; lia). cbn [negb andb]. cbv zeta.
    rewrite fact_call_fn, Hws, andb_false_r.
    rewrite infixFn_call.
    rewrite (parseExpressionList_mono f1 F _ _ _ _ (Nat.le_max_r f0 f1) Hargs). fold sE.
    rewrite HcL, Hlp.
    eapply exprLoop_mono with (f := f0); [unfold F; lia|].
    replace sE with (skip (List.length (toks ast_CALL f ++ [(t, true)] ++ arg_toks args ++ [pl RP]) - 1) s); [exact Hel|].
    unfold sE, sF. change (nextToken (skip ?k s)) with (skip 1 (skip k s)). rewrite <- !skip_add. f_equal.
    rewrite !app_length. cbn [List.length]. rewrite Hlena.
    pose proof (toks_nonempty ast_CALL f). destruct (toks ast_CALL f); [congruence|cbn [List.length]; lia]. }
  eapply (HF ptsf lp); [exact Hmf|now apply HK|exact HvF|].
  exists (S (S F)). exact Hloop.
Qed.

(* l[i] *)
Lemma parses_index t l i (K : ptok -> Prop) :
  ttype t = token_LBRACKET -> wf_ex conv i = true -> ToksOk i ->
  forall p, p < ast_CALL ->
  Parses p (toks (precedence_of (ttype t)) l) (to_node l) K ->
  (forall pt, pk pt = t -> K pt) ->
  Parses p (toks (precedence_of (ttype t)) l ++ [(t, true)] ++ toks ast_LOWEST i ++ [pl RB])
         (NIndex t (Some (to_node l)) (Some (to_node i))) (fun _ => True).
Proof.
  intros Ht Hwi HTi p Hp HL HK pts tk s x s' Hm _ Hs [f0 Hel].
  set (cl := precedence_of (ttype t)) in *.
  apply matches_app_inv in Hm as (ptsl & rest & -> & Hml & Hm2).
  cbn [app] in Hm2. apply matches_cons_inv in Hm2 as (lb & rest2 & -> & [Hlb Hws] & Hm3).
  cbn [fst snd] in Hlb, Hws. specialize (Hws eq_refl).
  apply matches_app_inv in Hm3 as (ptsi & rbs & -> & Hmi & Hm4).
  apply matches_cons_inv in Hm4 as (rb & rbs' & -> & Hrb & Hnil). apply matches_nil_inv in Hnil. subst rbs'.
  apply matches_pl in Hrb.
  assert (Hpl : ptsl <> []) by (eapply matches_nonempty; [exact Hml|apply toks_nonempty]).
  assert (Hpi : ptsi <> []) by (eapply matches_nonempty; [exact Hmi|apply toks_nonempty]).
  pose proof (matches_length _ _ Hml) as Hlenl. pose proof (matches_length _ _ Hmi) as Hleni.
  assert (Hs0 : view s (ptsl ++ lb :: ptsi ++ [rb; tk])).
  { rewrite <- !app_assoc in Hs. cbn [app] in Hs. rewrite <- app_assoc in Hs. exact Hs. }
  assert (HvL : view s (ptsl ++ [lb])).
  { apply view_prefix with (l2 := ptsi ++ [rb; tk]). rewrite <- app_assoc. exact Hs0. }
  destruct (view_at_last _ _ _ HvL Hpl) as [lastl HsL]. rewrite Hlenl in HsL.
  set (sL := skip (List.length (toks cl l) - 1) s) in *.
  pose proof (view_peek _ _ _ _ HsL) as HpkL.
  assert (HsB : view (nextToken sL) (lb :: ptsi ++ [rb; tk])).
  { apply view_skip in Hs0. rewrite Hlenl in Hs0.
    replace (nextToken sL) with (skip (List.length (toks cl l)) s); [exact Hs0|].
    unfold sL. change (nextToken (skip ?k s)) with (skip 1 (skip k s)). rewrite <- skip_add. f_equal.
    pose proof (toks_nonempty cl l). destruct (toks cl l); [congruence|cbn; lia]. }
  pose proof (view_cur _ _ _ HsB) as HcB.
  set (sI := nextToken (nextToken sL)).
  assert (HvI : view sI (ptsi ++ [rb; tk])) by (unfold sI; eapply view_next; exact HsB).
  assert (HvI' : view sI (ptsi ++ [rb])) by (apply view_prefix with (l2 := [tk]); now rewrite <- app_assoc).
  destruct (parse_operand i Hwi HTi ptsi rb sI Hmi ltac:(right; right; exact Hrb) HvI') as [f1 Hpe].
  set (sE := skip (List.length ptsi - 1) sI) in *.
  (* the closing bracket *)
  destruct (exists_last Hpi) as [ini [lasti Eli]].
  assert (HvE : view sE [lasti; rb; tk]).
  { unfold sE. rewrite Eli, app_length. cbn [List.length]. replace (List.length ini + 1 - 1)%nat with (List.length ini) by lia.
    apply view_skip with (l1 := ini). rewrite Eli, <- app_assoc in HvI. exact HvI. }
  pose proof (view_peek _ _ _ _ HvE) as HpkE.
  set (F := Nat.max f0 f1).
  destruct fact_levels as (_ & _ & E12 & _ & Elb & _).
  assert (Hloop : el (S (S F)) p (Some (to_node l)) sL = ROk x s').
  { rewrite exprLoop_S. unfold peekIs, peekPrecedence. rewrite HpkL. unfold pty. rewrite Hlb, Ht.
    replace (token_LBRACKET =? token_SEMICOLON) with false by reflexivity.
    rewrite Elb. replace (p <? 13) with true by (symmetry; apply Z.ltb_lt; lia). cbn [negb andb]. cbv zeta.
    rewrite fact_index_fn, Hws, andb_false_r.
    rewrite infixFn_index. cbv zeta. rewrite HcB, Hlb, Ht.
    replace (token_LBRACKET =? token_DOT) with false by reflexivity. fold sI.
    rewrite (parseExpression_mono conv f1 F ast_LOWEST sI _ _ (Nat.le_max_r f0 f1) Hpe). fold sE.
    unfold expectPeek, peekIs. rewrite HpkE. unfold pty. rewrite Hrb. cbn [ttype RB]. rewrite Z.eqb_refl.
    eapply exprLoop_mono with (f := f0); [unfold F; lia|].
    replace (nextToken sE) with (skip (List.length (toks cl l ++ [(t, true)] ++ toks ast_LOWEST i ++ [pl RB]) - 1) s); [exact Hel|].
    unfold sE, sI, sL.
    change (nextToken (skip (List.length ptsi - 1) (nextToken (nextToken (skip (List.length (toks cl l) - 1) s)))))
      with (skip 1 (skip (List.length ptsi - 1) (skip 1 (skip 1 (skip (List.length (toks cl l) - 1) s))))).
    rewrite <- !skip_add. f_equal.
    rewrite !app_length. cbn [List.length]. rewrite <- Hleni.
    pose proof (toks_nonempty cl l). destruct (toks cl l); [congruence|]. destruct ptsi; [congruence|]. cbn [List.length]. lia. }
  eapply (HL ptsl lb); [exact Hml|now apply HK|exact HvL|].
  exists (S (S F)). exact Hloop.
Qed.

Lemma fact_lparen_nopostfix : table_get postfix_fns token_LPAREN = None. Proof. reflexivity. Qed.
Lemma fact_lbracket_nopostfix : table_get postfix_fns token_LBRACKET = None. Proof. reflexivity. Qed.

(* an operand printed without parentheses in the context of a call (12) or an index (13) is an atom, a call
   or an index expression *)
Lemma tight_ctx c f p : wf_ex conv f = true -> 12 <= c -> paren c f = false -> p < 12 ->
  p < lvl f /\ forall tk, follow f tk.
Proof.
  intros Hwf Hc Hpar Hp. destruct fact_levels as (E11 & E1 & E12 & _).
  destruct f as [t a|op r|op l r|t g args|t l i]; cbn [lvl paren follow wf_ex] in *; rewrite ?E11, ?E12 in *.
  - split; [lia|auto].
  - apply Z.leb_gt in Hpar. lia.
  - repeat (apply andb_true_iff in Hwf as [Hwf ?]). pose proof (bin_q _ Hwf). apply Z.ltb_ge in Hpar. lia.
  - split; [lia|auto].
  - split; [lia|auto].
Qed.

Theorem body_ok : forall e, wf_ex conv e = true -> BodyOk e.
Proof.
  induction e as [t a|op r IH|op l r IHl IHr|t f args IHf IHa|t l i IHl IHi] using ex_ind2; intros Hwf p Hp.
  - cbn [wf_ex] in Hwf. cbn [body to_node].
    eapply parses_weaken; [|apply parses_atom; exact Hwf]. intros tk [H _]. exact H.
  - pose proof Hwf as Hwf0. cbn [wf_ex] in Hwf. apply andb_true_iff in Hwf as [Hop Hr].
    pose proof (toks_of_body r Hr (IH Hr)) as HT.
    rewrite body_pre. cbn [to_node].
    destruct fact_prefix_val as (E11 & _).
    eapply parses_weaken; [|apply parses_prefix with (K := KT ast_PREFIX r); [exact Hop|apply toks_nonempty|]].
    + intros tk [Hk Hf]. cbn [follow lvl] in Hf. split; [|split; [exact Hk|exact Hf]].
      split; [exact Hk|]. intros Hpar. apply follow_of_stops with (q := ast_PREFIX); [exact Hf|].
      apply unparen_lvl; [exact Hr|exact Hpar|rewrite E11; lia].
    + apply HT. intros Hpar. pose proof (unparen_lvl _ _ Hr Hpar ltac:(rewrite E11; lia)) as Hl.
      destruct fact_levels as (_ & _ & E12 & _).
      destruct r as [t a|rop rr|rop rl rr|t g args|t rl ri]; cbn [lvl paren] in *; try (rewrite ?E11, ?E12 in *; lia).
      cbn [wf_ex] in Hr. repeat (apply andb_true_iff in Hr as [Hr ?]). pose proof (bin_q _ Hr).
      rewrite ?E11 in *. lia.
  - pose proof Hwf as Hwf0. cbn [wf_ex] in Hwf. repeat (apply andb_true_iff in Hwf as [Hwf ?]).
    rename Hwf into Hop.
    match goal with X : wf_ex conv l = true |- _ => rename X into Hl end.
    match goal with X : wf_ex conv r = true |- _ => rename X into Hr end.
    pose proof (toks_of_body l Hl (IHl Hl)) as HTl.
    pose proof (toks_of_body r Hr (IHr Hr)) as HTr.
    pose proof (bin_q _ Hop) as Hq.
    rewrite body_bin. cbn [to_node]. set (q := precedence_of (ttype op)) in *.
    cbn [lvl] in Hp. fold q in Hp.
    eapply parses_weaken;
      [|apply parses_bin with (KL := KT q l) (KR := KT (right_ctx op r) r);
        [exact Hop|apply toks_nonempty|now apply toks_hd|exact Hp| | |]].
    + intros tk [Hk Hf]. cbn [follow lvl] in Hf. fold q in Hf. split; [|exact Hf].
      split; [exact Hk|]. intros Hpar. apply follow_of_stops with (q := q); [exact Hf|].
      destruct (right_lvl _ _ _ Hwf0 Hpar) as [H1 _]. fold q in H1. lia.
    + apply HTl. intros Hpar. pose proof (unparen_lvl _ _ Hl Hpar ltac:(lia)). lia.
    + apply HTr. intros Hpar. destruct (right_lvl _ _ _ Hwf0 Hpar) as [H1 _]. exact H1.
    + intros pt Hpt. split.
      * pose proof (bin_op_ok _ Hop) as Hok. unfold binop_ok in Hok. cbv zeta in Hok.
        repeat (apply andb_true_iff in Hok as [Hok ?]). unfold tkok, pty. rewrite Hpt. split.
        -- destruct (table_get postfix_fns (ttype op)); [discriminate|reflexivity].
        -- intros E. match goal with X : negb (ttype op =? token_LAMBDA) = true |- _ => rewrite E in X; discriminate X end.
      * intros Hpar. apply follow_of_stops with (q := q).
        -- right. left. unfold pty. rewrite Hpt. fold q. lia.
        -- apply unparen_lvl; [exact Hl|exact Hpar|lia].
  - (* call *)
    cbn [wf_ex] in Hwf. repeat (apply andb_true_iff in Hwf as [Hwf ?]).
    match goal with X : wf_ex conv f = true |- _ => rename X into Hf end.
    match goal with X : forallb _ args = true |- _ => rename X into Hargs end.
    apply Z.eqb_eq in Hwf. rename Hwf into Ht.
    pose proof (toks_of_body f Hf (IHf Hf)) as HTf.
    assert (HA : ArgsOk args).
    { clear -Hargs IHa. induction args as [|a rest IHr]; [constructor|].
      cbn [forallb] in Hargs. apply andb_true_iff in Hargs as [Ha Hrest].
      inversion IHa as [|? ? Ea Erest]; subst. constructor; [|now apply IHr].
      split; [exact Ha|]. apply toks_of_body; [exact Ha|now apply Ea]. }
    rewrite body_call. cbn [to_node]. cbn [lvl] in Hp.
    destruct fact_levels as (_ & _ & E12 & _).
    eapply parses_weaken; [|apply parses_call with (K := KT ast_CALL f); [exact Ht|exact HA|exact Hp| |]].
    + intros; exact I.
    + apply HTf. intros Hpar. rewrite E12 in *. exact (proj1 (tight_ctx 12 f p Hf ltac:(lia) Hpar Hp)).
    + intros pt Hpt. split.
      * unfold tkok, pty. rewrite Hpt, Ht. split; [exact fact_lparen_nopostfix|discriminate].
      * intros Hpar. rewrite E12 in *. exact (proj2 (tight_ctx 12 f p Hf ltac:(lia) Hpar Hp) pt).
  - (* index *)
    cbn [wf_ex] in Hwf. repeat (apply andb_true_iff in Hwf as [Hwf ?]).
    match goal with X : wf_ex conv l = true |- _ => rename X into Hl end.
    match goal with X : wf_ex conv i = true |- _ => rename X into Hi end.
    apply Z.eqb_eq in Hwf. rename Hwf into Ht.
    pose proof (toks_of_body l Hl (IHl Hl)) as HTl.
    pose proof (toks_of_body i Hi (IHi Hi)) as HTi.
    rewrite body_index. cbn [to_node]. cbn [lvl] in Hp.
    destruct fact_levels as (_ & _ & E12 & _ & Elb & _).
    assert (Ecl : precedence_of (ttype t) = 13) by (rewrite Ht; exact Elb).
    eapply parses_weaken; [|apply parses_index with (K := KT (precedence_of (ttype t)) l); [exact Ht|exact Hi|exact HTi|exact Hp| |]].
    + intros; exact I.
    + apply HTl. intros Hpar. rewrite Ecl, E12 in *. exact (proj1 (tight_ctx 13 l p Hl ltac:(lia) Hpar Hp)).
    + intros pt Hpt. split.
      * unfold tkok, pty. rewrite Hpt, Ht. split; [exact fact_lbracket_nopostfix|discriminate].
      * intros Hpar. rewrite Ecl, E12 in *. exact (proj2 (tight_ctx 13 l p Hl ltac:(lia) Hpar Hp) pt).
Qed.

Theorem toks_ok : forall e, wf_ex conv e = true -> ToksOk e.
Proof. intros e H. apply toks_of_body; [exact H|now apply body_ok]. Qed.
End RT.

(* ---------- a whole program consisting of one fragment expression ---------- *)
Lemma fact_eof_noprefix : table_get prefix_fns token_EOF = None. Proof. reflexivity. Qed.
Lemma fact_eol_noprefix : table_get prefix_fns token_EOL = None. Proof. reflexivity. Qed.
Lemma fact_eof_nopostfix : table_get postfix_fns token_EOF = None. Proof. reflexivity. Qed.
Lemma fact_eof_prec : precedence_of token_EOF = ast_LOWEST. Proof. reflexivity. Qed.

Lemma take_end k : forall s, ps_rest s = [] -> take (2 + k) s = ps_cur s :: ps_peek s :: repeat (ps_end s) k.
Proof.
  induction k as [|k IH]; intros s Hr.
  - cbn. now rewrite cur_next.
  - change (take (2 + S k) s) with (ps_cur s :: take (2 + k) (nextToken s)).
    rewrite IH; unfold nextToken; rewrite Hr; reflexivity.
Qed.
Lemma take_all k : forall s, take (2 + List.length (ps_rest s) + k) s
                              = ps_cur s :: ps_peek s :: ps_rest s ++ repeat (ps_end s) k.
Proof.
  intros s. remember (ps_rest s) as r eqn:Er. revert s Er.
  induction r as [|t r IH]; intros s Er.
  - cbn [List.length Nat.add app]. now apply take_end.
  - change (take (2 + List.length (t :: r) + k) s) with (ps_cur s :: take (2 + List.length r + k) (nextToken s)).
    rewrite (IH (nextToken s)); unfold nextToken; rewrite <- Er; reflexivity.
Qed.

Lemma view_init endt toks : view (init_state endt toks) (toks ++ [endt]).
Proof.
  unfold view, init_state.
  set (s0 := mkPs dummy_tok (mkPtok dummy_tok false false) (mkPtok dummy_tok false false) toks endt false []).
  pose proof (take_all 1 s0) as H. cbn [ps_rest ps_cur ps_peek ps_end s0 repeat] in H.
  change (nextToken (nextToken s0)) with (skip 2 s0).
  rewrite app_length. cbn [List.length].
  replace (2 + List.length toks + 1)%nat with (2 + (List.length toks + 1))%nat in H by lia.
  rewrite take_app in H. cbn [take app] in H. now injection H.
Qed.

Lemma skip_fields n : forall s, ps_errs (skip n s) = ps_errs s /\ ps_cont (skip n s) = ps_cont s
                                 /\ ps_rest (skip n s) = skipn n (ps_rest s).
Proof.
  induction n as [|n IH]; intros s; [now repeat split|].
  cbn [skip]. destruct (IH (nextToken s)) as (-> & -> & ->).
  unfold nextToken. destruct (ps_rest s) as [|t r]; cbn; repeat split; try reflexivity. now rewrite skipn_nil.
Qed.

Lemma fact_return_noprefix : table_get prefix_fns token_RETURN = None. Proof. reflexivity. Qed.

Definition eof_ptok : ptok := mkPtok (mkTok token_EOF []) false false.

(* ---------- a program that is a sequence of fragment expression statements ---------- *)
Lemma fact_semicolon_noprefix : table_get prefix_fns token_SEMICOLON = None. Proof. reflexivity. Qed.

Lemma programLoop_mono_le conv f f' acc s l s' : (f <= f')%nat ->
  programLoop conv f acc s = ROk l s' -> programLoop conv f' acc s = ROk l s'.
Proof. intros Hle. induction Hle as [|f' Hle IH]; [auto|]. intros H. apply programLoop_mono. auto. Qed.

(* the first token of a statement that follows another one must not continue it: not a postfix operator or
   `=>`, and either without infix precedence or an opening parenthesis / bracket preceded by white space *)
Definition starts_fresh (tk : ptok) : Prop := tkok tk /\ stops ast_LOWEST tk.

Definition stmt_ok (conv : numconv) (e : ex) (pts : list ptok) : Prop := wf_ex conv e = true /\ matches pts (body e).

Lemma frag_prog_loop conv : forall es ptss, Forall2 (stmt_ok conv) es ptss ->
  (forall pts, In pts (tl ptss) -> match pts with t :: _ => starts_fresh t | [] => True end) ->
  forall acc s, view s (List.concat ptss ++ [eof_ptok]) ->
  exists f, programLoop conv f acc s
            = ROk (acc ++ map (fun e => Some (to_node e)) es) (skip (List.length (List.concat ptss)) s).
Proof.
  intros es ptss HF. induction HF as [|e pts es ptss [Hwf Hm] HF IH]; intros Hfresh acc s Hv.
  - exists 1%nat. cbn [List.concat app] in Hv. pose proof (view_cur _ _ _ Hv) as Hc.
    cbn [programLoop]. unfold curIs. rewrite Hc. cbn. now rewrite app_nil_r.
  - cbn [List.concat] in Hv |- *.
    destruct fact_prefix_val as (E11 & E1 & _).
    assert (Hpn : pts <> []) by (eapply matches_nonempty; [exact Hm|apply body_nonempty]).
    assert (Hlen : List.length pts = List.length (body e)) by (now apply matches_length).
    (* the token that follows this statement *)
    set (follow_l := List.concat ptss ++ [eof_ptok]) in *.
    assert (Htk : exists tk more, follow_l = tk :: more /\ tkok tk /\ stops ast_LOWEST tk
                                  /\ pty tk <> token_SEMICOLON).
    { unfold follow_l. destruct ptss as [|pts2 ptss'].
      - exists eof_ptok, []. split; [reflexivity|]. repeat split; try discriminate; try exact fact_eof_nopostfix.
        right. left. change (pty eof_ptok) with token_EOF. rewrite fact_eof_prec. lia.
      - inversion HF as [|e2 ? es' ? [Hwf2 Hm2] HF']; subst.
        pose proof (body_hd_prefix conv e2 Hwf2) as Hhd.
        destruct pts2 as [|t2 pts2']; [apply matches_length in Hm2; pose proof (body_nonempty e2); destruct (body e2); [congruence|discriminate Hm2]|].
        exists t2, (pts2' ++ List.concat ptss' ++ [eof_ptok]). split; [cbn [List.concat app]; now rewrite <- app_assoc|].
        specialize (Hfresh (t2 :: pts2') (or_introl eq_refl)). destruct Hfresh as [H1 H2].
        repeat split; try apply H1; try exact H2.
        destruct (body e2) as [|m2 ms2]; [contradiction|]. apply matches_cons_inv in Hm2 as (? & ? & Ep & [Hp2 _] & _).
        injection Ep as <- _. cbn [hd_prefix] in Hhd. unfold pty. rewrite Hp2. intros X. rewrite X, fact_semicolon_noprefix in Hhd.
        now apply Hhd. }
    destruct Htk as (tk & more & Efl & Hk & Hst & Hns). rewrite <- app_assoc in Hv. fold follow_l in Hv. rewrite Efl in Hv.
    assert (Hv1 : view s (pts ++ [tk])).
    { apply view_prefix with (l2 := more). now rewrite <- app_assoc. }
    destruct (view_at_last _ _ _ Hv1 Hpn) as [lastp Hse]. rewrite Hlen in Hse.
    set (se := skip (List.length (body e) - 1) s) in *.
    pose proof (view_peek _ _ _ _ Hse) as Hpk.
    assert (Hexpr : exists f, parseExpression conv f ast_LOWEST s = ROk (Some (to_node e)) se).
    { pose proof (toks_ok conv e Hwf 0 ast_LOWEST) as HT.
      assert (Hpar : paren 0 e = false).
      { clear -Hwf. destruct (fact_levels) as (E11' & _ & _ & _ & Elb & _).
        destruct e as [t a|op r|op l r|t f args|t l i]; cbn [paren]; try reflexivity; cbn [wf_ex] in Hwf;
          repeat (apply andb_true_iff in Hwf as [Hwf ?]).
        - pose proof (bin_q _ Hwf). lia.
        - apply Z.eqb_eq in Hwf. rewrite Hwf, Elb. reflexivity. }
      unfold toks in HT. rewrite Hpar in HT.
      eapply (HT ltac:(intros _; rewrite E1; now apply (lvl_low conv)) pts tk); [exact Hm| |exact Hv1|].
      - split; [exact Hk|]. intros _. apply follow_of_stops with (q := ast_LOWEST); [exact Hst|].
        pose proof (lvl_low conv e Hwf). rewrite E1. lia.
      - exists 1%nat. now apply el_stop with (tk := tk). }
    destruct Hexpr as [f1 Hpe].
    (* the rest of the program starts right after this statement *)
    assert (Hvnext : view (nextToken se) follow_l).
    { rewrite Efl. replace (nextToken se) with (skip (List.length pts) s).
      - apply view_skip with (l1 := pts). exact Hv.
      - unfold se. change (nextToken (skip (List.length (body e) - 1) s)) with (skip 1 (skip (List.length (body e) - 1) s)).
        rewrite <- skip_add. f_equal. rewrite Hlen. destruct (body e) eqn:Eb0; [exfalso; exact (body_nonempty e Eb0)|cbn; lia]. }
    destruct (IH ltac:(intros p Hp; apply Hfresh; cbn [tl]; destruct ptss; [contradiction|right; exact Hp]) (acc ++ [Some (to_node e)]) (nextToken se) Hvnext)
      as [f2 Hrest].
    (* this statement *)
    pose proof (body_hd_prefix conv e Hwf) as Hpre.
    destruct pts as [|p1 pts']; [congruence|].
    assert (Hc : ps_cur s = p1) by (apply view_cur with (l := pts' ++ tk :: more); exact Hv).
    destruct (body e) as [|m1 bt] eqn:Eb; [contradiction|].
    apply matches_cons_inv in Hm as (? & ? & Ep & [Hp1 _] & Hm'). injection Ep as <- <-. set (t1 := fst m1) in *.
    cbn [hd_prefix] in Hpre. fold t1 in Hpre.
    assert (Hret : ttype t1 <> token_RETURN) by (intros X; rewrite X, fact_return_noprefix in Hpre; now apply Hpre).
    assert (Hcur_eof : curIs s token_EOF = false).
    { unfold curIs, pty. rewrite Hc, Hp1. apply Z.eqb_neq. intros X. rewrite X in Hpre. now apply Hpre. }
    assert (Hcur_eol : curIs s token_EOL = false).
    { unfold curIs, pty. rewrite Hc, Hp1. apply Z.eqb_neq. intros X. rewrite X in Hpre. now apply Hpre. }
    assert (Hcur_ret : curIs s token_RETURN = false).
    { unfold curIs, pty. rewrite Hc, Hp1. now apply Z.eqb_neq. }
    set (F := Nat.max f1 f2). set (F' := S F).
    exists (S F'). cbn [programLoop]. rewrite Hcur_eof, Hcur_eol. cbn [orb].
    unfold F' at 1. rewrite parseStatement_S, Hcur_ret.
    rewrite (parseExpression_mono conv f1 F ast_LOWEST s _ _ (Nat.le_max_l f1 f2) Hpe).
    assert (Hsemi : peekIs se token_SEMICOLON = false) by (unfold peekIs; rewrite Hpk; now apply Z.eqb_neq).
    rewrite Hsemi.
    rewrite (programLoop_mono_le conv f2 F' _ _ _ _ ltac:(unfold F', F; lia) Hrest).
    f_equal.
    + rewrite <- app_assoc. reflexivity.
    + unfold se. change (nextToken (skip (List.length (m1 :: bt) - 1) s)) with (skip 1 (skip (List.length (m1 :: bt) - 1) s)).
      rewrite <- !skip_add. f_equal. rewrite app_length. cbn [List.length] in Hlen |- *. lia.
Qed.

Theorem fragment_statements_roundtrip conv es ptss :
  Forall2 (stmt_ok conv) es ptss ->
  (forall pts, In pts (tl ptss) -> match pts with t :: _ => starts_fresh t | [] => True end) ->
  exists f0, forall fuel, (f0 <= fuel)%nat ->
    parse_program conv fuel token_EOF (List.concat ptss)
    = POk (mkPres (map (fun e => Some (to_node e)) es) [] false true).
Proof.
  intros HF Hfresh.
  assert (Hone : exists f, parse_program conv f token_EOF (List.concat ptss)
                           = POk (mkPres (map (fun e => Some (to_node e)) es) [] false true)).
  2:{ destruct Hone as [f Hf]. exists f. intros fuel Hle. eapply parse_program_fuel_monotone; eassumption. }
  unfold parse_program. fold eof_ptok.
  pose proof (view_init eof_ptok (List.concat ptss)) as Hv.
  destruct (frag_prog_loop conv es ptss HF Hfresh [] _ Hv) as [f Hf].
  exists f. rewrite Hf. cbn [app]. f_equal.
  unfold init_state.
  match goal with |- context [nextToken (nextToken ?s0)] => change (nextToken (nextToken s0)) with (skip 2 s0); set (z := s0) end.
  rewrite <- skip_add.
  destruct (skip_fields (2 + List.length (List.concat ptss)) z) as (-> & -> & ->).
  cbn [ps_errs ps_cont ps_rest z rev]. rewrite skipn_all2; [reflexivity|lia].
Qed.

(* a program that is one fragment expression *)
Theorem fragment_program_roundtrip conv e pts :
  wf_ex conv e = true -> matches pts (body e) ->
  exists f0, forall fuel, (f0 <= fuel)%nat ->
    parse_program conv fuel token_EOF pts
    = POk (mkPres [Some (to_node e)] [] false true).
Proof.
  intros Hwf Hm.
  destruct (fragment_statements_roundtrip conv [e] [pts]) as [f0 H].
  - constructor; [split; assumption|constructor].
  - intros p [].
  - exists f0. intros fuel Hle. specialize (H fuel Hle). cbn [List.concat map] in H. now rewrite app_nil_r in H.
Qed.

(* ---------- consequence for C03: formatted text is a fixpoint at token level ---------- *)
Lemma of_to_node e : of_node (to_node e) = Some e.
Proof.
  induction e as [t a|op r IH|op l r IHl IHr|t f args IHf IHa|t l i IHl IHi] using ex_ind2; cbn [to_node of_node].
  - destruct a; cbn [atom_node of_node]; try reflexivity. now rewrite Bool.eqb_reflx.
  - now rewrite IH.
  - now rewrite IHl, IHr.
  - rewrite IHf.
    match goal with |- match ?g (map _ args) with _ => _ end = _ => assert (Hg : g (map (fun a => Some (to_node a)) args) = Some args) end.
    { induction IHa as [|a rest Ha _ IHr]; [reflexivity|]. cbn [map]. rewrite Ha, IHr. reflexivity. }
    now rewrite Hg.
  - now rewrite IHl, IHi.
Qed.

(* parsing the tokens of formatted fragment text and formatting again gives the same tokens *)
Theorem fragment_format_fixpoint conv e pts :
  wf_ex conv e = true -> matches pts (body e) ->
  exists f0, forall fuel, (f0 <= fuel)%nat ->
    match parse_program conv fuel token_EOF pts with
    | POk r => frag_tokens conv (pr_tree r) = Some (plain_toks (body e))
    | _ => False
    end.
Proof.
  intros Hwf Hm. destruct (fragment_program_roundtrip conv e pts Hwf Hm) as [f0 H].
  exists f0. intros fuel Hle. rewrite (H fuel Hle). cbn [pr_tree frag_tokens].
  now rewrite of_to_node, Hwf.
Qed.

(* ---------- with the fuel the front end really uses ---------- *)
From GrolProofs Require Import Parser_term Parser_nopanic.

(* neither an end marker nor a line comment *)
Definition plain_ty (ty : Z) : bool :=
  negb (Z.eqb ty token_EOF || Z.eqb ty token_EOL || Z.eqb ty token_LINECOMMENT).

Lemma plain_ty_by_fn (P : Z -> bool) ty :
  P ty = true -> P token_EOF = false -> P token_EOL = false -> P token_LINECOMMENT = false -> plain_ty ty = true.
Proof.
  intros H H1 H2 H3. unfold plain_ty. apply negb_true_iff.
  destruct (Z.eqb_spec ty token_EOF) as [->|_]; [congruence|].
  destruct (Z.eqb_spec ty token_EOL) as [->|_]; [congruence|].
  destruct (Z.eqb_spec ty token_LINECOMMENT) as [->|_]; [congruence|]. reflexivity.
Qed.

Lemma atom_plain conv t a : atom_wf conv t a = true -> plain_ty (ttype t) = true.
Proof.
  destruct a; cbn [atom_wf]; intros H.
  - apply Z.eqb_eq in H. now rewrite H.
  - apply andb_true_iff in H as [H _]. apply Z.eqb_eq in H. now rewrite H.
  - apply andb_true_iff in H as [H _]. apply Z.eqb_eq in H. now rewrite H.
  - apply Z.eqb_eq in H. now rewrite H.
  - apply orb_true_iff in H as [H|H]; apply Z.eqb_eq in H; now rewrite H.
  - now apply (plain_ty_by_fn (fun ty => has_prefix_fn ty "parseControlExpression")).
Qed.

Definition plain_m (m : mtok) : Prop := plain_ty (ttype (fst m)) = true.

Lemma body_plain conv e : wf_ex conv e = true -> Forall plain_m (body e).
Proof.
  assert (W : forall c x, Forall plain_m (body x) -> Forall plain_m (toks c x)).
  { intros c x Hx. unfold toks. destruct (paren c x); [|exact Hx].
    constructor; [reflexivity|]. apply Forall_app. split; [exact Hx|constructor; [reflexivity|constructor]]. }
  induction e as [t a|op r IH|op l r IHl IHr|t f args IHf IHa|t l i IHl IHi] using ex_ind2; intros H; cbn [wf_ex] in H.
  - cbn [body]. constructor; [|constructor]. now apply (atom_plain conv _ a).
  - rewrite body_pre. apply andb_true_iff in H as [Hop Hr]. constructor; [|apply W, IH, Hr].
    now apply (plain_ty_by_fn is_prefix_op).
  - rewrite body_bin. repeat (apply andb_true_iff in H as [H ?]).
    apply Forall_app. split; [apply W, IHl; assumption|]. constructor; [|apply W, IHr; assumption].
    now apply (plain_ty_by_fn is_bin_op).
  - rewrite body_call. repeat (apply andb_true_iff in H as [H ?]). apply Z.eqb_eq in H.
    apply Forall_app. split; [apply W, IHf; assumption|]. constructor; [unfold plain_m; cbn [fst]; rewrite H; reflexivity|].
    apply Forall_app. split; [|constructor; [reflexivity|constructor]].
    match goal with X : forallb _ args = true |- _ => rename X into Ha end.
    clear -Ha IHa W. induction args as [|a rest IHr]; [constructor|].
    cbn [forallb] in Ha. apply andb_true_iff in Ha as [Ha1 Ha2]. inversion IHa as [|? ? E1 E2]; subst.
    cbn [arg_toks]. apply Forall_app. split; [apply W, E1, Ha1|].
    destruct rest as [|b rest']; [constructor|]. constructor; [reflexivity|]. now apply IHr.
  - rewrite body_index. repeat (apply andb_true_iff in H as [H ?]). apply Z.eqb_eq in H.
    apply Forall_app. split; [apply W, IHl; assumption|]. constructor; [unfold plain_m; cbn [fst]; rewrite H; reflexivity|].
    apply Forall_app. split; [apply W, IHi; assumption|constructor; [reflexivity|constructor]].
Qed.

Lemma matches_plain pts ms : matches pts ms -> Forall plain_m ms -> Forall (fun pt => plain_ty (pty pt) = true) pts.
Proof.
  induction 1 as [|pt m pts ms [Hp _] _ IH]; intros HF; [constructor|].
  inversion HF as [|? ? Hm HF']; subst. constructor; [|now apply IH].
  unfold pty. rewrite Hp. exact Hm.
Qed.

Lemma plain_not_E pt : plain_ty (pty pt) = true -> isE pt = false.
Proof.
  unfold plain_ty, isE. intros H. apply negb_true_iff in H. apply orb_false_iff in H as [H _]. exact H.
Qed.

Lemma closed_plain e l : Forall (fun pt => plain_ty (pty pt) = true) l -> closed e l.
Proof.
  induction 1 as [|x l Hx _ IH]; [exact I|]. cbn [closed]. split; [|exact IH].
  intros X. rewrite (plain_not_E _ Hx) in X. discriminate X.
Qed.

Lemma chain_plain e l : Forall (fun pt => plain_ty (pty pt) = true) l -> chain_ok (l ++ [e]) = true.
Proof.
  induction 1 as [|x l Hx _ IH]; [reflexivity|].
  cbn [app]. destruct (l ++ [e]) as [|b r] eqn:E; [reflexivity|].
  change (chain_ok (x :: b :: r)) with (pair_ok x b && chain_ok (b :: r)). rewrite IH, andb_true_r.
  unfold pair_ok. unfold plain_ty in Hx. apply negb_true_iff in Hx. apply orb_false_iff in Hx as [_ Hx]. now rewrite Hx.
Qed.

(* the statement theorem at the fuel the front end really uses: termination (Parser_term) removes the
   existential, the absence of panics (Parser_nopanic) the third outcome *)
Theorem fragment_statements_roundtrip_default_fuel conv es ptss :
  Forall2 (stmt_ok conv) es ptss ->
  (forall pts, In pts (tl ptss) -> match pts with t :: _ => starts_fresh t | [] => True end) ->
  parse_program conv (default_fuel (List.concat ptss)) token_EOF (List.concat ptss)
  = POk (mkPres (map (fun e => Some (to_node e)) es) [] false true).
Proof.
  intros HF Hfresh. destruct (fragment_statements_roundtrip conv es ptss HF Hfresh) as [f0 H].
  set (toks := List.concat ptss) in *.
  assert (Hpl : Forall (fun pt => plain_ty (pty pt) = true) toks).
  { unfold toks. clear -HF. induction HF as [|e pts es ptss [Hwf Hm] _ IH]; [constructor|].
    cbn [List.concat]. apply Forall_app. split; [|exact IH]. eapply matches_plain; [exact Hm|now apply (body_plain conv)]. }
  pose proof (parse_program_terminates conv token_EOF toks (or_introl eq_refl) (closed_plain _ _ Hpl)) as Hterm.
  assert (Hnp : forall w, parse_program conv (default_fuel toks) token_EOF toks <> PPanic w).
  { apply parse_never_panics. unfold comment_shaped. now rewrite chain_plain. }
  destruct (parse_program conv (default_fuel toks) token_EOF toks) as [r|w|] eqn:E.
  - pose proof (parse_program_fuel_monotone conv _ (Nat.max f0 (default_fuel toks)) _ _ _ (Nat.le_max_r _ _) E) as E1.
    rewrite (H _ (Nat.le_max_l _ _)) in E1. now injection E1 as <-.
  - now exfalso; apply (Hnp w).
  - now exfalso.
Qed.
