(* Lemmas about model/Cmp.v (C12; used by C11 for the key order).

   Plan (DESIGN section 4, C12):
   1. [skey]: a small universe of sort keys (class ordinal + payload) with a comparison [scmp] that is a
      total preorder on the whole type, by construction and with no side condition ([scmp_wo]).
   2. [cmp_is_scmp]: the model's Cmp is [scmp] of the images, [cmp a b = Val (scmp (skey_of a) (skey_of b))].
      This is where the generated tables enter: the proof computes on the type ordinals of
      Gen_Consts.v and on object_Cmp_panic_types of Gen_Cmp.v ([ordinal_side_conditions]).
   3. The C12 statements about cmp / equals / operators / min / max follow.
   4. [cmp_int_float_go_exact]: the code-shaped int64/float64 comparison equals the carrier comparison. *)
From Coq Require Import List ZArith NArith QArith Bool Lia Arith.
From GrolGen Require Import Gen_Consts Gen_Cmp.
From GrolModel Require Import Values Cmp.
Import ListNotations.
Local Close Scope Q_scope.
Local Open Scope Z_scope.

(* ================================================================ 1. weak orders *)
(* what it means for a three-way comparison to behave as a total preorder, stated "at x" so that it can be
   carried through nested inductions *)
Definition wo_at {A : Type} (f : A -> A -> comparison) (x : A) : Prop :=
  f x x = Eq
  /\ (forall y, f y x = CompOpp (f x y))
  /\ (forall y z, f x y = Eq -> f x z = f y z)
  /\ (forall y z, f x y = Lt -> f y z <> Gt -> f x z = Lt).

Lemma compopp_eq : forall c, CompOpp c = Eq -> c = Eq.
Proof. destruct c; simpl; congruence. Qed.

Lemma Zcompare_wo : forall x : Z, wo_at Z.compare x.
Proof.
  intro x. unfold wo_at. repeat split.
  - apply Z.compare_refl.
  - intro y. apply Z.compare_antisym.
  - intros y z H. apply Z.compare_eq in H. subst. reflexivity.
  - intros y z H1 H2. change (x < z). change (x < y) in H1. change (y <= z) in H2. lia.
Qed.

Lemma Ncompare_wo : forall x : N, wo_at N.compare x.
Proof.
  intro x. unfold wo_at. repeat split.
  - apply N.compare_refl.
  - intro y. apply N.compare_antisym.
  - intros y z H. apply N.compare_eq in H. subst. reflexivity.
  - intros y z H1 H2. change (x < z)%N. change (x < y)%N in H1. change (y <= z)%N in H2. lia.
Qed.

Lemma Natcompare_wo : forall x : nat, wo_at Nat.compare x.
Proof.
  intro x. unfold wo_at. repeat split.
  - apply Nat.compare_refl.
  - intro y. apply Nat.compare_antisym.
  - intros y z H. apply Nat.compare_eq in H. subst. reflexivity.
  - intros y z H1 H2. apply Nat.compare_lt_iff. apply Nat.compare_lt_iff in H1.
    apply Nat.compare_le_iff in H2. lia.
Qed.

Lemma Qcompare_wo : forall x : Q, wo_at Qcompare x.
Proof.
  intro x. unfold wo_at. repeat split.
  - apply Qeq_alt. reflexivity.
  - intro y. symmetry. apply Qcompare_antisym.
  - intros y z H. apply Qeq_alt in H. rewrite H. reflexivity.
  - intros y z H1 H2. apply Qlt_alt. apply Qlt_alt in H1. apply Qle_alt in H2.
    eapply Qlt_le_trans; eauto.
Qed.

Lemma bool_cmp_wo : forall x : bool, wo_at bool_cmp x.
Proof.
  intro x. unfold wo_at. repeat split.
  - destruct x; reflexivity.
  - intro y; destruct x, y; reflexivity.
  - intros y z; destruct x, y, z; cbv; congruence.
  - intros y z; destruct x, y, z; cbv; congruence.
Qed.

Lemma nkey_cmp_wo : forall x : nkey, wo_at nkey_cmp x.
Proof.
  intro x. unfold wo_at. repeat split.
  - destruct x; simpl; auto. apply (Qcompare_wo q).
  - intro y. destruct x, y; simpl; auto. destruct (Qcompare_wo q) as (_ & S & _). apply S.
  - intros y z. destruct x, y; simpl; try discriminate; auto.
    destruct z; simpl; auto. destruct (Qcompare_wo q) as (_ & _ & T1 & _). apply T1.
  - intros y z. destruct x, y; simpl; try discriminate; destruct z; simpl; auto; try congruence;
      try (intros; reflexivity).
    all: try (destruct (Qcompare_wo q) as (_ & _ & _ & T2); apply T2).
    all: intros ? H2; exfalso; apply H2; reflexivity.
Qed.

(* lexicographic lifting to lists (pure version of Cmp.lex_o; a proper prefix is smaller) *)
Section Lex.
  Context {A : Type} (f : A -> A -> comparison).
  Fixpoint lex (la lb : list A) : comparison :=
    match la, lb with
    | [], [] => Eq
    | [], _ :: _ => Lt
    | _ :: _, [] => Gt
    | x :: la', y :: lb' => match f x y with Eq => lex la' lb' | c => c end
    end.

  Lemma lex_wo : forall la, Forall (wo_at f) la -> wo_at lex la.
  Proof.
    induction la as [|x la IH]; intro HF.
    - unfold wo_at. repeat split.
      + intro y; destruct y; reflexivity.
      + intros y z; destruct y; simpl; try discriminate. auto.
      + intros y z; destruct y; simpl; try discriminate. destruct z; simpl; congruence.
    - inversion HF as [|? ? Hx Hla]; subst. specialize (IH Hla).
      destruct Hx as (Rx & Sx & T1x & T2x). destruct IH as (Rl & Sl & T1l & T2l).
      unfold wo_at. repeat split.
      + simpl. rewrite Rx. exact Rl.
      + intro y. destruct y as [|y0 y]; simpl; auto.
        rewrite (Sx y0). destruct (f x y0); simpl; auto.
      + intros y z. destruct y as [|y0 y]; simpl; try discriminate.
        destruct (f x y0) eqn:E; try discriminate. intro H.
        destruct z as [|z0 z]; simpl; auto.
        rewrite (T1x y0 z0 E). destruct (f y0 z0); auto.
      + intros y z. destruct y as [|y0 y]; simpl; try discriminate.
        destruct (f x y0) eqn:E; try discriminate; intros H1 H2.
        * destruct z as [|z0 z]; simpl in *; try congruence.
          rewrite (T1x y0 z0 E). destruct (f y0 z0); auto; try congruence.
          apply (T2l y z); assumption.
        * destruct z as [|z0 z]; simpl in *; try congruence.
          assert (f y0 z0 <> Gt) by (destruct (f y0 z0); congruence).
          rewrite (T2x y0 z0 E H). reflexivity.
  Qed.
End Lex.

Lemma bytes_cmp_lex : forall a b, bytes_cmp a b = lex N.compare a b.
Proof. induction a; destruct b; simpl; auto; try (rewrite IHa; reflexivity). Qed.

Lemma bytes_cmp_wo : forall x, wo_at bytes_cmp x.
Proof.
  intro x.
  assert (H : wo_at (lex N.compare) x).
  { apply lex_wo. apply Forall_forall. intros; apply Ncompare_wo. }
  destruct H as (R & S & T1 & T2). unfold wo_at. repeat split.
  - rewrite bytes_cmp_lex; exact R.
  - intro y; rewrite !bytes_cmp_lex; apply S.
  - intros y z; rewrite !bytes_cmp_lex; apply T1.
  - intros y z; rewrite !bytes_cmp_lex; apply T2.
Qed.

(* ---- the sort keys *)
Inductive skey : Type :=
| SNum (c : Z) (n : nkey)
| SBool (c : Z) (b : bool)
| SUnit (c : Z)
| SText (c : Z) (s : list N)
| SList (c : Z) (l : list skey).

Definition scls (k : skey) : Z :=
  match k with SNum c _ | SBool c _ | SUnit c | SText c _ | SList c _ => c end.
Definition srank (k : skey) : Z :=
  match k with SNum _ _ => 0 | SBool _ _ => 1 | SUnit _ => 2 | SText _ _ => 3 | SList _ _ => 4 end.

Fixpoint scmp (a b : skey) {struct a} : comparison :=
  match Z.compare (scls a) (scls b) with
  | Eq =>
      match Z.compare (srank a) (srank b) with
      | Eq =>
          match a, b with
          | SNum _ x, SNum _ y => nkey_cmp x y
          | SBool _ x, SBool _ y => bool_cmp x y
          | SUnit _, SUnit _ => Eq
          | SText _ x, SText _ y => bytes_cmp x y
          | SList _ x, SList _ y =>
              match Nat.compare (length x) (length y) with
              | Eq => lex scmp x y
              | c => c
              end
          | _, _ => Eq
          end
      | c => c
      end
  | c => c
  end.

Section skey_ind2.
  Variable P : skey -> Prop.
  Hypothesis HNum : forall c n, P (SNum c n).
  Hypothesis HBool : forall c b, P (SBool c b).
  Hypothesis HUnit : forall c, P (SUnit c).
  Hypothesis HText : forall c s, P (SText c s).
  Hypothesis HList : forall c l, Forall P l -> P (SList c l).
  Fixpoint skey_ind2 (k : skey) : P k :=
    match k with
    | SNum c n => HNum c n
    | SBool c b => HBool c b
    | SUnit c => HUnit c
    | SText c s => HText c s
    | SList c l =>
        HList c l ((fix go (l : list skey) : Forall P l :=
                      match l with
                      | [] => Forall_nil P
                      | x :: l' => Forall_cons x (skey_ind2 x) (go l')
                      end) l)
    end.
End skey_ind2.

(* a three-stage comparison (class, then rank, then payload) is a weak order when each stage is *)
Lemma zlt_cmp : forall a b, a < b -> (a ?= b) = Lt. Proof. intros a b H; exact H. Qed.

Lemma staged_wo :
  forall (A : Type) (g h : A -> Z) (p : A -> A -> comparison) (x : A),
    let f := fun a b => match Z.compare (g a) (g b) with
                        | Eq => match Z.compare (h a) (h b) with Eq => p a b | c => c end
                        | c => c
                        end in
    p x x = Eq ->
    (forall y, g x = g y -> h x = h y -> p y x = CompOpp (p x y)) ->
    (forall y z, g x = g y -> h x = h y -> g x = g z -> h x = h z -> p x y = Eq -> p x z = p y z) ->
    (forall y z, g x = g y -> h x = h y -> g x = g z -> h x = h z -> p x y = Lt -> p y z <> Gt -> p x z = Lt) ->
    wo_at f x.
Proof.
  intros A g h p x f R S T1 T2. unfold wo_at, f. repeat split.
  - rewrite !Z.compare_refl. exact R.
  - intro y. rewrite (Z.compare_antisym (g x) (g y)).
    destruct (g x ?= g y) eqn:E1; simpl; auto.
    rewrite (Z.compare_antisym (h x) (h y)).
    destruct (h x ?= h y) eqn:E2; simpl; auto.
    apply Z.compare_eq in E1, E2. auto.
  - intros y z. destruct (g x ?= g y) eqn:E1; try discriminate.
    destruct (h x ?= h y) eqn:E2; try discriminate. intro H.
    apply Z.compare_eq in E1, E2. rewrite <- E1, <- E2.
    destruct (g x ?= g z) eqn:E3; auto. destruct (h x ?= h z) eqn:E4; auto.
    apply Z.compare_eq in E3, E4. auto.
  - intros y z.
    destruct (Z.compare_spec (g x) (g y)) as [E1|E1|E1]; try discriminate.
    + rewrite <- E1.
      destruct (Z.compare_spec (h x) (h y)) as [E2|E2|E2]; try discriminate.
      * rewrite <- E2.
        destruct (Z.compare_spec (g x) (g z)) as [E3|E3|E3]; auto; try congruence.
        destruct (Z.compare_spec (h x) (h z)) as [E4|E4|E4]; auto; try congruence.
        intros; apply (T2 y z); auto.
      * intros _.
        destruct (Z.compare_spec (g x) (g z)) as [E3|E3|E3]; auto; try congruence.
        destruct (Z.compare_spec (h y) (h z)) as [E4|E4|E4]; try congruence; intros _.
        -- rewrite zlt_cmp by lia. reflexivity.
        -- rewrite zlt_cmp by lia. reflexivity.
    + intros _.
      destruct (Z.compare_spec (g y) (g z)) as [E3|E3|E3]; try congruence; intros _.
      * rewrite zlt_cmp by lia. reflexivity.
      * rewrite zlt_cmp by lia. reflexivity.
Qed.

(* payload comparison (the innermost match of scmp) *)
Definition spay (a b : skey) : comparison :=
  match a, b with
  | SNum _ x, SNum _ y => nkey_cmp x y
  | SBool _ x, SBool _ y => bool_cmp x y
  | SUnit _, SUnit _ => Eq
  | SText _ x, SText _ y => bytes_cmp x y
  | SList _ x, SList _ y =>
      match Nat.compare (length x) (length y) with
      | Eq => lex scmp x y
      | c => c
      end
  | _, _ => Eq
  end.

Lemma scmp_unfold : forall a b,
  scmp a b = match Z.compare (scls a) (scls b) with
             | Eq => match Z.compare (srank a) (srank b) with Eq => spay a b | c => c end
             | c => c
             end.
Proof. destruct a, b; reflexivity. Qed.

(* length-then-lex on lists *)
Lemma natlt_cmp : forall a b : nat, (a < b)%nat -> (a ?= b)%nat = Lt.
Proof. intros a b H. apply Nat.compare_lt_iff. exact H. Qed.

Lemma lenlex_wo : forall (A : Type) (f : A -> A -> comparison) (x : list A),
  Forall (wo_at f) x ->
  wo_at (fun a b => match Nat.compare (length a) (length b) with Eq => lex f a b | c => c end) x.
Proof.
  intros A f x HF.
  pose proof (lex_wo f x HF) as (R & S & T1 & T2).
  unfold wo_at. repeat split.
  - rewrite Nat.compare_refl. exact R.
  - intro y. rewrite (Nat.compare_antisym (length x) (length y)).
    destruct (length x ?= length y)%nat; simpl; auto.
  - intros y z. destruct (Nat.compare_spec (length x) (length y)) as [E|E|E]; try discriminate.
    rewrite <- E. intro H.
    destruct (length x ?= length z)%nat; auto.
  - intros y z. destruct (Nat.compare_spec (length x) (length y)) as [E|E|E]; try discriminate.
    + rewrite <- E.
      destruct (Nat.compare_spec (length x) (length z)) as [E2|E2|E2]; auto; try congruence.
      apply T2.
    + intros _.
      destruct (Nat.compare_spec (length y) (length z)) as [E2|E2|E2]; try congruence; intros _.
      * rewrite natlt_cmp by lia. reflexivity.
      * rewrite natlt_cmp by lia. reflexivity.
Qed.

Lemma scmp_wo : forall x : skey, wo_at scmp x.
Proof.
  induction x using skey_ind2.
  - (* SNum *)
    pose proof (nkey_cmp_wo n) as (R & S & T1 & T2).
    assert (W : wo_at (fun a b => match Z.compare (scls a) (scls b) with
                        | Eq => match Z.compare (srank a) (srank b) with Eq => spay a b | c => c end
                        | c => c end) (SNum c n)).
    { apply staged_wo; simpl; auto.
      - intros y _ Hr. destruct y; simpl in *; try discriminate. apply S.
      - intros y z _ Hy _ Hz. destruct y; simpl in *; try discriminate. destruct z; simpl in *; try discriminate. apply T1.
      - intros y z _ Hy _ Hz. destruct y; simpl in *; try discriminate. destruct z; simpl in *; try discriminate. apply T2. }
    destruct W as (R' & S' & T1' & T2').
    unfold wo_at; repeat split.
    + rewrite scmp_unfold; exact R'.
    + intro y; rewrite !scmp_unfold; apply S'.
    + intros y z; rewrite !scmp_unfold; apply T1'.
    + intros y z; rewrite !scmp_unfold; apply T2'.
  - (* SBool *)
    pose proof (bool_cmp_wo b) as (R & S & T1 & T2).
    assert (W : wo_at (fun a b => match Z.compare (scls a) (scls b) with
                        | Eq => match Z.compare (srank a) (srank b) with Eq => spay a b | c => c end
                        | c => c end) (SBool c b)).
    { apply staged_wo; simpl; auto.
      - intros y _ Hr. destruct y; simpl in *; try discriminate. apply S.
      - intros y z _ Hy _ Hz. destruct y; simpl in *; try discriminate. destruct z; simpl in *; try discriminate. apply T1.
      - intros y z _ Hy _ Hz. destruct y; simpl in *; try discriminate. destruct z; simpl in *; try discriminate. apply T2. }
    destruct W as (R' & S' & T1' & T2').
    unfold wo_at; repeat split.
    + rewrite scmp_unfold; exact R'.
    + intro y; rewrite !scmp_unfold; apply S'.
    + intros y z; rewrite !scmp_unfold; apply T1'.
    + intros y z; rewrite !scmp_unfold; apply T2'.
  - (* SUnit *)
    assert (W : wo_at (fun a b => match Z.compare (scls a) (scls b) with
                        | Eq => match Z.compare (srank a) (srank b) with Eq => spay a b | c => c end
                        | c => c end) (SUnit c)).
    { apply staged_wo; simpl; auto.
      - intros y _ Hr. destruct y; simpl in *; try discriminate. reflexivity.
      - intros y z _ Hy _ Hz. destruct y; simpl in *; try discriminate. destruct z; simpl in *; try discriminate. reflexivity.
      - intros y z _ Hy _ Hz. destruct y; simpl in *; try discriminate. }
    destruct W as (R' & S' & T1' & T2').
    unfold wo_at; repeat split.
    + rewrite scmp_unfold; exact R'.
    + intro y; rewrite !scmp_unfold; apply S'.
    + intros y z; rewrite !scmp_unfold; apply T1'.
    + intros y z; rewrite !scmp_unfold; apply T2'.
  - (* SText *)
    pose proof (bytes_cmp_wo s) as (R & S & T1 & T2).
    assert (W : wo_at (fun a b => match Z.compare (scls a) (scls b) with
                        | Eq => match Z.compare (srank a) (srank b) with Eq => spay a b | c => c end
                        | c => c end) (SText c s)).
    { apply staged_wo; simpl; auto.
      - intros y _ Hr. destruct y; simpl in *; try discriminate. apply S.
      - intros y z _ Hy _ Hz. destruct y; simpl in *; try discriminate. destruct z; simpl in *; try discriminate. apply T1.
      - intros y z _ Hy _ Hz. destruct y; simpl in *; try discriminate. destruct z; simpl in *; try discriminate. apply T2. }
    destruct W as (R' & S' & T1' & T2').
    unfold wo_at; repeat split.
    + rewrite scmp_unfold; exact R'.
    + intro y; rewrite !scmp_unfold; apply S'.
    + intros y z; rewrite !scmp_unfold; apply T1'.
    + intros y z; rewrite !scmp_unfold; apply T2'.
  - (* SList *)
    pose proof (lenlex_wo skey scmp l H) as (R & S & T1 & T2).
    assert (W : wo_at (fun a b => match Z.compare (scls a) (scls b) with
                        | Eq => match Z.compare (srank a) (srank b) with Eq => spay a b | c => c end
                        | c => c end) (SList c l)).
    { apply staged_wo; simpl; auto.
      - intros y _ Hr. destruct y; simpl in *; try discriminate. apply S.
      - intros y z _ Hy _ Hz. destruct y; simpl in *; try discriminate. destruct z; simpl in *; try discriminate. apply T1.
      - intros y z _ Hy _ Hz. destruct y; simpl in *; try discriminate. destruct z; simpl in *; try discriminate. apply T2. }
    destruct W as (R' & S' & T1' & T2').
    unfold wo_at; repeat split.
    + rewrite scmp_unfold; exact R'.
    + intro y; rewrite !scmp_unfold; apply S'.
    + intros y z; rewrite !scmp_unfold; apply T1'.
    + intros y z; rewrite !scmp_unfold; apply T2'.
Qed.

(* ================================================================ 2. Cmp is scmp of the images *)
Fixpoint skey_of (v : value) : skey :=
  match v with
  | VInt z => SNum object_INTEGER (nkey_of_int z)
  | VFloat f => SNum object_INTEGER (nkey_of_fl f)
  | VBool b => SBool object_BOOLEAN b
  | VNil => SUnit object_NIL
  | VStr s => SText object_STRING s
  | VTxt k s => SText (tkind_ord k) s
  | VArr l => SList object_ARRAY (map skey_of l)
  | VMap l => SList object_MAP (flat_map (fun p => [skey_of (fst p); skey_of (snd p)]) l)
  end.

Section value_ind2.
  Variable P : value -> Prop.
  Hypothesis HInt : forall z, P (VInt z).
  Hypothesis HFloat : forall f, P (VFloat f).
  Hypothesis HBool : forall b, P (VBool b).
  Hypothesis HNil : P VNil.
  Hypothesis HStr : forall s, P (VStr s).
  Hypothesis HTxt : forall k s, P (VTxt k s).
  Hypothesis HArr : forall l, Forall P l -> P (VArr l).
  Hypothesis HMap : forall l, Forall (fun p => P (fst p) /\ P (snd p)) l -> P (VMap l).
  Fixpoint value_ind2 (v : value) : P v :=
    match v with
    | VInt z => HInt z
    | VFloat f => HFloat f
    | VBool b => HBool b
    | VNil => HNil
    | VStr s => HStr s
    | VTxt k s => HTxt k s
    | VArr l =>
        HArr l ((fix go (l : list value) : Forall P l :=
                   match l with
                   | [] => Forall_nil P
                   | x :: l' => Forall_cons x (value_ind2 x) (go l')
                   end) l)
    | VMap l =>
        HMap l ((fix go (l : list (value * value)) : Forall (fun p => P (fst p) /\ P (snd p)) l :=
                   match l with
                   | [] => Forall_nil _
                   | p :: l' => Forall_cons p (conj (value_ind2 (fst p)) (value_ind2 (snd p))) (go l')
                   end) l)
    end.
End value_ind2.

(* the four tests Cmp makes on the two type ordinals, as one computed answer *)
Inductive guard : Type := GIntFloat | GLt | GGt | GPanic | GSame.
Definition guard_of (ti tj : Z) : guard :=
  if are_int_float ti tj then GIntFloat
  else if Z.ltb ti tj then GLt
  else if Z.ltb tj ti then GGt
  else if cmp_panics ti then GPanic
  else GSame.

Definition pair_cmp (p q : value * value) : outcome comparison :=
  match cmp (fst p) (fst q) with
  | Val Eq => cmp (snd p) (snd q)
  | r => r
  end.

Lemma cmp_unfold : forall a b,
  cmp a b =
  match guard_of (type_of a) (type_of b) with
  | GIntFloat =>
      match a, b with
      | VInt x, VFloat f => Val (nkey_cmp (nkey_of_int x) (nkey_of_fl f))
      | VFloat f, VInt x => Val (nkey_cmp (nkey_of_fl f) (nkey_of_int x))
      | _, _ => GoPanic
      end
  | GLt => Val Lt
  | GGt => Val Gt
  | GPanic => GoPanic
  | GSame =>
      match a, b with
      | VInt x, VInt y => Val (Z.compare x y)
      | VFloat x, VFloat y => Val (nkey_cmp (nkey_of_fl x) (nkey_of_fl y))
      | VBool x, VBool y => Val (bool_cmp x y)
      | VNil, VNil => Val Eq
      | VStr x, VStr y => Val (bytes_cmp x y)
      | VTxt _ x, VTxt _ y => Val (bytes_cmp x y)
      | VArr x, VArr y => nat_cmp_then (length x) (length y) (lex_o cmp x y)
      | VMap x, VMap y => nat_cmp_then (length x) (length y) (lex_o pair_cmp x y)
      | _, _ => GoPanic
      end
  end.
Proof.
  intros a b. unfold guard_of.
  destruct a; simpl;
    repeat (match goal with |- context [if ?c then _ else _] => destruct c end; try reflexivity).
Qed.

Definition zc := Z.compare.
Lemma scmp_unfold_zc : forall a b,
  scmp a b = match zc (scls a) (scls b) with
             | Eq => match zc (srank a) (srank b) with Eq => spay a b | c => c end
             | c => c
             end.
Proof. exact scmp_unfold. Qed.

Lemma Qcompare_inject_Z : forall x y, Qcompare (inject_Z x) (inject_Z y) = Z.compare x y.
Proof. intros. unfold Qcompare, inject_Z. simpl. rewrite !Z.mul_1_r. reflexivity. Qed.

Lemma nat_cmp_then_spec : forall n m k,
  nat_cmp_then n m k = match Nat.compare n m with Eq => k | Lt => Val Lt | Gt => Val Gt end.
Proof.
  intros n m k. unfold nat_cmp_then.
  destruct (Nat.compare_spec n m) as [E|E|E].
  - subst. rewrite Nat.ltb_irrefl. reflexivity.
  - apply Nat.ltb_lt in E. rewrite E. reflexivity.
  - assert (H : Nat.ltb n m = false) by (apply Nat.ltb_ge; lia). rewrite H.
    apply Nat.ltb_lt in E. rewrite E. reflexivity.
Qed.

Lemma lex_o_map : forall (x y : list value),
  Forall (fun a => forall b, cmp a b = Val (scmp (skey_of a) (skey_of b))) x ->
  length x = length y ->
  lex_o cmp x y = Val (lex scmp (map skey_of x) (map skey_of y)).
Proof.
  induction x as [|a x IH]; intros y HF HL; destruct y as [|b y]; simpl in *; try discriminate; auto.
  inversion HF; subst. rewrite H1. destruct (scmp (skey_of a) (skey_of b)); auto.
Qed.

Lemma lex_o_flat : forall (x y : list (value * value)),
  Forall (fun p => (forall b, cmp (fst p) b = Val (scmp (skey_of (fst p)) (skey_of b)))
                   /\ (forall b, cmp (snd p) b = Val (scmp (skey_of (snd p)) (skey_of b)))) x ->
  length x = length y ->
  lex_o pair_cmp x y =
  Val (lex scmp (flat_map (fun p => [skey_of (fst p); skey_of (snd p)]) x)
                (flat_map (fun p => [skey_of (fst p); skey_of (snd p)]) y)).
Proof.
  induction x as [|p x IH]; intros y HF HL; destruct y as [|q y]; simpl in *; try discriminate; auto.
  inversion HF as [|? ? [H1 H2] HF']; subst. unfold pair_cmp at 1. rewrite H1.
  destruct (scmp (skey_of (fst p)) (skey_of (fst q))); auto.
  rewrite H2. destruct (scmp (skey_of (snd p)) (skey_of (snd q))); auto.
Qed.

Lemma flat2_length : forall (A B : Type) (f g : A -> B) (l : list A),
  length (flat_map (fun p => [f p; g p]) l) = (2 * length l)%nat.
Proof. induction l; simpl; auto. rewrite IHl. lia. Qed.

Lemma nat_compare_double : forall n m, Nat.compare (2 * n) (2 * m) = Nat.compare n m.
Proof.
  intros n m. destruct (Nat.compare_spec n m) as [E|E|E].
  - subst. apply Nat.compare_refl.
  - apply Nat.compare_lt_iff. lia.
  - apply Nat.compare_gt_iff. lia.
Qed.

(* evaluate the closed ordinal tests (this is where Gen_Consts.v / Gen_Cmp.v are consulted) *)
Ltac eval_guards :=
  repeat match goal with
         | |- context [guard_of ?a ?b] =>
             let v := eval vm_compute in (guard_of a b) in change (guard_of a b) with v
         | |- context [zc ?a ?b] =>
             let v := eval vm_compute in (zc a b) in change (zc a b) with v
         end.

Ltac des_tk := repeat match goal with kk : tkind |- _ => destruct kk end.

Theorem cmp_is_scmp : forall a b, cmp a b = Val (scmp (skey_of a) (skey_of b)).
Proof.
  induction a using value_ind2; intro bb; rewrite cmp_unfold, scmp_unfold_zc.
  - destruct bb; des_tk; simpl type_of; simpl scls; simpl srank; simpl skey_of; unfold tkind_ord;
      eval_guards; cbv iota; try reflexivity.
    simpl. unfold nkey_of_int. simpl. rewrite Qcompare_inject_Z. reflexivity.
  - destruct bb; des_tk; simpl type_of; simpl scls; simpl srank; simpl skey_of; unfold tkind_ord;
      eval_guards; cbv iota; reflexivity.
  - destruct bb; des_tk; simpl type_of; simpl scls; simpl srank; simpl skey_of; unfold tkind_ord;
      eval_guards; cbv iota; reflexivity.
  - destruct bb; des_tk; simpl type_of; simpl scls; simpl srank; simpl skey_of; unfold tkind_ord;
      eval_guards; cbv iota; reflexivity.
  - destruct bb; des_tk; simpl type_of; simpl scls; simpl srank; simpl skey_of; unfold tkind_ord;
      eval_guards; cbv iota; reflexivity.
  - destruct k; destruct bb; des_tk; simpl type_of; simpl scls; simpl srank; simpl skey_of; unfold tkind_ord;
      eval_guards; cbv iota; reflexivity.
  - destruct bb; des_tk; simpl type_of; simpl scls; simpl srank; simpl skey_of; unfold tkind_ord;
      eval_guards; cbv iota; try reflexivity.
    simpl spay. rewrite !map_length. rewrite nat_cmp_then_spec.
    destruct (Nat.compare_spec (length l) (length l0)) as [E|E|E]; auto.
    apply lex_o_map; assumption.
  - destruct bb; des_tk; simpl type_of; simpl scls; simpl srank; simpl skey_of; unfold tkind_ord;
      eval_guards; cbv iota; try reflexivity.
    simpl spay. rewrite !flat2_length, nat_compare_double. rewrite nat_cmp_then_spec.
    destruct (Nat.compare_spec (length l) (length l0)) as [E|E|E]; auto.
    apply lex_o_flat; assumption.
Qed.

(* ================================================================ 3. the C12 statements *)
(* a <= b in the order behind the operators: Cmp answered, and did not answer 1 *)
Definition vle (a b : value) : Prop := cmp a b = Val Lt \/ cmp a b = Val Eq.
(* order-equivalence *)
Definition veq (a b : value) : Prop := cmp a b = Val Eq.

Definition sc (a b : value) : comparison := scmp (skey_of a) (skey_of b).

Lemma sc_wo : forall a, wo_at sc a.
Proof.
  intro a. destruct (scmp_wo (skey_of a)) as (R & S & T1 & T2).
  unfold wo_at, sc. repeat split.
  - exact R.
  - intro y; apply S.
  - intros y z; apply T1.
  - intros y z; apply T2.
Qed.

Lemma cmp_never_panics : forall a b, exists c, cmp a b = Val c.
Proof. intros. eexists. apply cmp_is_scmp. Qed.

Lemma cmp_c_spec : forall a b, cmp a b = Val (cmp_c a b).
Proof. intros. unfold cmp_c. rewrite cmp_is_scmp. reflexivity. Qed.

Lemma cmp_c_sc : forall a b, cmp_c a b = sc a b.
Proof. intros. unfold cmp_c. rewrite cmp_is_scmp. reflexivity. Qed.

Lemma cmp_c_wo : forall a, wo_at cmp_c a.
Proof.
  intro a. destruct (sc_wo a) as (R & S & T1 & T2).
  unfold wo_at. repeat split.
  - rewrite cmp_c_sc; exact R.
  - intro y; rewrite !cmp_c_sc; apply S.
  - intros y z; rewrite !cmp_c_sc; apply T1.
  - intros y z; rewrite !cmp_c_sc; apply T2.
Qed.

Lemma cmp_refl : forall a, cmp a a = Val Eq.
Proof. intro a. rewrite cmp_is_scmp. f_equal. apply (sc_wo a). Qed.

Lemma cmp_antisym : forall a b, cmp b a = omap CompOpp (cmp a b).
Proof.
  intros a b. rewrite !cmp_is_scmp. simpl. f_equal.
  destruct (sc_wo a) as (_ & S & _). apply S.
Qed.

Lemma vle_iff : forall a b, vle a b <-> sc a b <> Gt.
Proof.
  intros a b. unfold vle. rewrite cmp_is_scmp. fold (sc a b).
  destruct (sc a b); split; intro H; try congruence; auto;
    try (destruct H; discriminate).
Qed.

Lemma vle_refl : forall a, vle a a.
Proof. intro a. right. apply cmp_refl. Qed.

Lemma vle_trans : forall a b c, vle a b -> vle b c -> vle a c.
Proof.
  intros a b c H1 H2. apply vle_iff in H1, H2. apply vle_iff.
  destruct (sc_wo a) as (_ & _ & T1 & T2).
  destruct (sc a b) eqn:E; try congruence.
  - rewrite (T1 b c E). assumption.
  - rewrite (T2 b c E H2). discriminate.
Qed.

Lemma vle_total : forall a b, vle a b \/ vle b a.
Proof.
  intros a b. rewrite !vle_iff.
  destruct (sc_wo a) as (_ & S & _). rewrite (S b).
  destruct (sc a b); simpl; [left|left|right]; discriminate.
Qed.

Lemma vle_antisym : forall a b, vle a b -> vle b a -> veq a b.
Proof.
  intros a b H1 H2. apply vle_iff in H1, H2. unfold veq. rewrite cmp_is_scmp. fold (sc a b).
  destruct (sc_wo a) as (_ & S & _). rewrite (S b) in H2.
  destruct (sc a b); simpl in *; congruence.
Qed.

Lemma veq_refl : forall a, veq a a.
Proof. exact cmp_refl. Qed.

Lemma veq_sym : forall a b, veq a b -> veq b a.
Proof. intros a b H. unfold veq in *. rewrite cmp_antisym, H. reflexivity. Qed.

(* order-equivalent values are interchangeable in every comparison *)
Lemma veq_cmp_l : forall a b c, veq a b -> cmp a c = cmp b c.
Proof.
  intros a b c H. unfold veq in H. rewrite cmp_is_scmp in H.
  assert (E : scmp (skey_of a) (skey_of b) = Eq) by congruence.
  rewrite !cmp_is_scmp. f_equal. destruct (scmp_wo (skey_of a)) as (_ & _ & T1 & _). apply T1. exact E.
Qed.

Lemma veq_cmp_r : forall a b c, veq a b -> cmp c a = cmp c b.
Proof.
  intros a b c H. rewrite (cmp_antisym a c), (cmp_antisym b c), (veq_cmp_l a b c H). reflexivity.
Qed.

Lemma veq_trans : forall a b c, veq a b -> veq b c -> veq a c.
Proof. intros a b c H1 H2. unfold veq. rewrite (veq_cmp_l a b c H1). exact H2. Qed.

(* strict order: transitive, and compatible with <= on either side *)
Lemma vlt_le_trans : forall a b c, cmp a b = Val Lt -> vle b c -> cmp a c = Val Lt.
Proof.
  intros a b c H1 H2. apply vle_iff in H2. rewrite cmp_is_scmp in *.
  assert (E : scmp (skey_of a) (skey_of b) = Lt) by congruence. f_equal.
  destruct (scmp_wo (skey_of a)) as (_ & _ & _ & T2). apply (T2 _ _ E H2).
Qed.

Lemma vle_lt_trans : forall a b c, vle a b -> cmp b c = Val Lt -> cmp a c = Val Lt.
Proof.
  intros a b c H1 H2.
  assert (G : cmp c a = Val Gt).
  { assert (L : cmp c b = Val Gt) by (rewrite cmp_antisym, H2; reflexivity).
    destruct (cmp_never_panics c a) as [r Hr]. destruct r; auto.
    - (* c ~ a : then a <= b gives c <= b, contradiction *)
      assert (vle c b) by (apply vle_trans with a; [right; exact Hr| exact H1]).
      destruct H; congruence.
    - assert (vle c b) by (apply vle_trans with a; [left; exact Hr| exact H1]).
      destruct H; congruence. }
  rewrite cmp_antisym, G. reflexivity.
Qed.

(* ---- operators *)
Lemma op_lt_gt : forall a b, op_lt a b = op_gt b a.
Proof. intros. unfold op_lt, op_gt. rewrite (cmp_antisym a b). destruct (cmp a b) as [[]|]; reflexivity. Qed.

Lemma op_le_ge : forall a b, op_le a b = op_ge b a.
Proof. intros. unfold op_le, op_ge. rewrite (cmp_antisym a b). destruct (cmp a b) as [[]|]; reflexivity. Qed.

Lemma op_le_not_gt : forall a b, op_le a b = omap negb (op_gt a b).
Proof. intros. unfold op_le, op_gt. destruct (cmp a b) as [[]|]; reflexivity. Qed.

Lemma op_ge_not_lt : forall a b, op_ge a b = omap negb (op_lt a b).
Proof. intros. unfold op_ge, op_lt. destruct (cmp a b) as [[]|]; reflexivity. Qed.

Lemma op_ne_not_eq : forall a b, op_ne a b = omap negb (op_eq a b).
Proof. reflexivity. Qed.

Lemma op_le_iff : forall a b, op_le a b = Val true <-> vle a b.
Proof.
  intros. unfold op_le, vle. destruct (cmp a b) as [[]|]; simpl; split; intro H; auto; try discriminate;
    destruct H; discriminate.
Qed.

Lemma op_lt_iff : forall a b, op_lt a b = Val true <-> cmp a b = Val Lt.
Proof. intros. unfold op_lt. destruct (cmp a b) as [[]|]; simpl; split; intro H; auto; discriminate. Qed.

Lemma op_total : forall a b,
  (exists r, op_lt a b = Val r) /\ (exists r, op_le a b = Val r) /\ (exists r, op_gt a b = Val r)
  /\ (exists r, op_ge a b = Val r) /\ (exists r, op_eq a b = Val r) /\ (exists r, op_ne a b = Val r).
Proof.
  intros a b. unfold op_lt, op_le, op_gt, op_ge, op_ne, op_eq, equals.
  rewrite cmp_is_scmp. fold (sc a b). simpl.
  destruct (type_of a =? type_of b); destruct (sc a b); simpl;
    repeat split; eexists; reflexivity.
Qed.

(* ---- Equals *)
Lemma equals_iff : forall a b, equals a b = Val true <-> type_of a = type_of b /\ veq a b.
Proof.
  intros a b. unfold equals, veq.
  destruct (Z.eqb_spec (type_of a) (type_of b)) as [E|E].
  - destruct (cmp a b) as [[]|]; split; intro H; try discriminate; auto; destruct H; discriminate.
  - split; intro H; try discriminate. destruct H; contradiction.
Qed.

Lemma equals_total : forall a b, exists r, equals a b = Val r.
Proof.
  intros a b. unfold equals. rewrite cmp_is_scmp. fold (sc a b).
  destruct (type_of a =? type_of b); destruct (sc a b); eexists; reflexivity.
Qed.

Lemma equals_refl : forall a, equals a a = Val true.
Proof. intro a. apply equals_iff. split; auto. apply veq_refl. Qed.

Lemma equals_sym : forall a b, equals a b = equals b a.
Proof.
  intros a b. unfold equals. rewrite (Z.eqb_sym (type_of a) (type_of b)), (cmp_antisym a b).
  destruct (type_of b =? type_of a); auto. destruct (cmp a b) as [[]|]; reflexivity.
Qed.

Lemma equals_trans : forall a b c, equals a b = Val true -> equals b c = Val true -> equals a c = Val true.
Proof.
  intros a b c H1 H2. apply equals_iff in H1, H2. apply equals_iff.
  destruct H1, H2. split; [congruence|]. eapply veq_trans; eauto.
Qed.

Lemma equals_implies_cmp_eq : forall a b, equals a b = Val true -> cmp a b = Val Eq.
Proof. intros a b H. apply equals_iff in H. apply H. Qed.

(* == implies <= and >= ; != is its negation (by definition) *)
Lemma op_eq_le_ge : forall a b, op_eq a b = Val true -> op_le a b = Val true /\ op_ge a b = Val true.
Proof.
  intros a b H. apply equals_implies_cmp_eq in H. unfold op_le, op_ge. rewrite H. auto.
Qed.

(* ---- min / max *)
Lemma in_weaken : forall (m cur a : value) rest, In m (cur :: rest) -> In m (cur :: a :: rest).
Proof. intros m cur a rest [H|H]; simpl; auto. Qed.

Lemma in_skip : forall (m cur a : value) rest, In m (a :: rest) -> In m (cur :: a :: rest).
Proof. intros; simpl; auto. Qed.

Lemma vmin_spec : forall rest cur,
  exists m, vmin cur rest = Val m /\ In m (cur :: rest) /\ forall y, In y (cur :: rest) -> vle m y.
Proof.
  induction rest as [|a rest IH]; intro cur; simpl vmin.
  - exists cur. split; [reflexivity|]. split; [left; reflexivity|]. intros y [<-|[]]. apply vle_refl.
  - destruct (cmp_never_panics a cur) as [r Hr]. rewrite Hr.
    assert (Hkeep : r <> Lt -> vle cur a).
    { intro Hn. unfold vle. rewrite (cmp_antisym a cur), Hr. destruct r; simpl; auto. congruence. }
    assert (Hcur : r <> Lt ->
              exists m, vmin cur rest = Val m /\ In m (cur :: a :: rest) /\
                        forall y, In y (cur :: a :: rest) -> vle m y).
    { intro Hn. destruct (IH cur) as (m & Hm & Hin & Hle). exists m.
      split; [exact Hm|]. split; [apply in_weaken; exact Hin|].
      intros y [<-|[<-|Hy]].
      - apply Hle; left; reflexivity.
      - apply vle_trans with cur; [apply Hle; left; reflexivity | apply Hkeep; exact Hn].
      - apply Hle; right; exact Hy. }
    destruct r.
    + apply Hcur; discriminate.
    + destruct (IH a) as (m & Hm & Hin & Hle). exists m.
      split; [exact Hm|]. split; [apply in_skip; exact Hin|].
      intros y [<-|[<-|Hy]].
      * apply vle_trans with a; [apply Hle; left; reflexivity | left; exact Hr].
      * apply Hle; left; reflexivity.
      * apply Hle; right; exact Hy.
    + apply Hcur; discriminate.
Qed.

Lemma vmax_spec : forall rest cur,
  exists m, vmax cur rest = Val m /\ In m (cur :: rest) /\ forall y, In y (cur :: rest) -> vle y m.
Proof.
  induction rest as [|a rest IH]; intro cur; simpl vmax.
  - exists cur. split; [reflexivity|]. split; [left; reflexivity|]. intros y [<-|[]]. apply vle_refl.
  - destruct (cmp_never_panics a cur) as [r Hr]. rewrite Hr.
    assert (Hkeep : r <> Gt -> vle a cur).
    { intro Hn. unfold vle. rewrite Hr. destruct r; auto. congruence. }
    assert (Hcur : r <> Gt ->
              exists m, vmax cur rest = Val m /\ In m (cur :: a :: rest) /\
                        forall y, In y (cur :: a :: rest) -> vle y m).
    { intro Hn. destruct (IH cur) as (m & Hm & Hin & Hle). exists m.
      split; [exact Hm|]. split; [apply in_weaken; exact Hin|].
      intros y [<-|[<-|Hy]].
      - apply Hle; left; reflexivity.
      - apply vle_trans with cur; [apply Hkeep; exact Hn | apply Hle; left; reflexivity].
      - apply Hle; right; exact Hy. }
    destruct r.
    + apply Hcur; discriminate.
    + apply Hcur; discriminate.
    + destruct (IH a) as (m & Hm & Hin & Hle). exists m.
      split; [exact Hm|]. split; [apply in_skip; exact Hin|].
      intros y [<-|[<-|Hy]].
      * apply vle_trans with a; [| apply Hle; left; reflexivity].
        left. rewrite (cmp_antisym a cur), Hr. reflexivity.
      * apply Hle; left; reflexivity.
      * apply Hle; right; exact Hy.
Qed.

(* ================================================================ 4. the code-shaped int64/float64 comparison *)
Lemma cmp_lt : forall x y, x < y -> (x ?= y) = Lt.
Proof. intros; apply Z.compare_lt_iff; assumption. Qed.
Lemma cmp_gt : forall x y, x > y -> (x ?= y) = Gt.
Proof. intros; apply Z.compare_gt_iff; lia. Qed.
Lemma cmp_eq : forall x y, x = y -> (x ?= y) = Eq.
Proof. intros; subst; apply Z.compare_refl. Qed.

(* non-negative float  M / d  (d > 0): trunc = M / d, fractional part positive iff M mod d <> 0 *)
Lemma go_shape_pos : forall i M d,
  0 < d -> 0 <= M -> - two63 <= i < two63 ->
  (if two63 <=? M / d then Lt
   else if (M / d <? - two63) || ((M / d =? - two63) && false) then Gt
   else match i ?= M / d with
        | Eq => CompOpp (if M mod d =? 0 then Eq else Gt)
        | c => c
        end) = (i * d ?= M).
Proof.
  intros i M d Hd HM Hi.
  assert (T : two63 = 9223372036854775808) by reflexivity.
  pose proof (Z.div_mod M d ltac:(lia)) as DM. pose proof (Z.mod_pos_bound M d Hd) as MB.
  assert (Q0 : 0 <= M / d) by (apply Z.div_pos; lia).
  set (q := M / d) in *. set (r := M mod d) in *.
  destruct (Z.leb_spec two63 q).
  - symmetry. apply cmp_lt. nia.
  - destruct (Z.ltb_spec q (- two63)); [lia|].
    rewrite andb_false_r. simpl orb. cbv iota.
    destruct (Z.compare_spec i q).
    + subst i. destruct (Z.eqb_spec r 0); simpl; symmetry.
      * apply cmp_eq. nia.
      * apply cmp_lt. nia.
    + symmetry. apply cmp_lt. nia.
    + symmetry. apply cmp_gt. nia.
Qed.

(* non-positive float  -M / d *)
Lemma go_shape_neg : forall i M d,
  0 < d -> 0 <= M -> - two63 <= i < two63 ->
  (if two63 <=? - (M / d) then Lt
   else if (- (M / d) <? - two63) || ((- (M / d) =? - two63) && (if M mod d =? 0 then false else true)) then Gt
   else match i ?= - (M / d) with
        | Eq => CompOpp (if M mod d =? 0 then Eq else Lt)
        | c => c
        end) = (i * d ?= - M).
Proof.
  intros i M d Hd HM Hi.
  assert (T : two63 = 9223372036854775808) by reflexivity.
  pose proof (Z.div_mod M d ltac:(lia)) as DM. pose proof (Z.mod_pos_bound M d Hd) as MB.
  assert (Q0 : 0 <= M / d) by (apply Z.div_pos; lia).
  set (q := M / d) in *. set (r := M mod d) in *.
  destruct (Z.leb_spec two63 (- q)); [lia|].
  destruct (Z.ltb_spec (- q) (- two63)).
  - cbn [orb]. symmetry. apply cmp_gt. nia.
  - cbn [orb]. destruct (Z.eqb_spec (- q) (- two63)).
    + destruct (Z.eqb_spec r 0); cbn [andb CompOpp].
      * destruct (Z.compare_spec i (- q)); symmetry.
        -- apply cmp_eq. nia.
        -- apply cmp_lt. nia.
        -- apply cmp_gt. nia.
      * symmetry. apply cmp_gt. nia.
    + cbn [andb]. destruct (Z.compare_spec i (- q)).
      * subst i. destruct (Z.eqb_spec r 0); cbn [CompOpp]; symmetry.
        -- apply cmp_eq. nia.
        -- apply cmp_gt. nia.
      * symmetry. apply cmp_lt. nia.
      * symmetry. apply cmp_gt. nia.
Qed.

Lemma cmp_int_float_go_exact : forall (i : Z) (f : fl),
  - two63 <= i < two63 ->
  cmp_int_float_go i f = nkey_cmp (nkey_of_int i) (nkey_of_fl f).
Proof.
  intros i f Hi. destruct f as [|neg|neg m e].
  - reflexivity.
  - destruct neg; reflexivity.
  - unfold cmp_int_float_go, nkey_of_int, nkey_of_fl, nkey_cmp, q_of_fin, fin_trunc, fin_frac_sign.
    destruct e as [|p|p].
    + (* e = 0 : an integer *)
      rewrite Qcompare_inject_Z. rewrite !Z.mul_1_r.
      pose proof (N2Z.is_nonneg m) as HM. set (M := Z.of_N m) in *.
      destruct neg.
      * pose proof (go_shape_neg i M 1 ltac:(lia) HM Hi) as G.
        rewrite Z.div_1_r, Z.mod_1_r in G. simpl in G. rewrite Z.mul_1_r in G.
        rewrite andb_false_r in G. rewrite andb_false_r. exact G.
      * pose proof (go_shape_pos i M 1 ltac:(lia) HM Hi) as G.
        rewrite Z.div_1_r, Z.mod_1_r in G. simpl in G. rewrite Z.mul_1_r in G. exact G.
    + (* e > 0 : an integer M * 2^e *)
      rewrite Qcompare_inject_Z.
      pose proof (N2Z.is_nonneg m) as HM0.
      assert (HP : 0 < 2 ^ Z.pos p) by (apply Z.pow_pos_nonneg; lia).
      assert (HM : 0 <= Z.of_N m * 2 ^ Z.pos p) by nia.
      set (M := Z.of_N m * 2 ^ Z.pos p) in *.
      destruct neg.
      * replace (- Z.of_N m * 2 ^ Z.pos p) with (- M) by (unfold M; ring).
        pose proof (go_shape_neg i M 1 ltac:(lia) HM Hi) as G.
        rewrite Z.div_1_r, Z.mod_1_r in G. simpl in G. rewrite Z.mul_1_r in G.
        rewrite andb_false_r in G. rewrite andb_false_r. exact G.
      * pose proof (go_shape_pos i M 1 ltac:(lia) HM Hi) as G.
        rewrite Z.div_1_r, Z.mod_1_r in G. simpl in G. rewrite Z.mul_1_r in G. exact G.
    + (* e < 0 : M / 2^p *)
      pose proof (N2Z.is_nonneg m) as HM. set (M := Z.of_N m) in *.
      assert (HP : 0 < 2 ^ Z.pos p) by (apply Z.pow_pos_nonneg; lia).
      unfold Qcompare. simpl Qnum. simpl Qden. rewrite Pos2Z.inj_pow. rewrite Z.mul_1_r.
      change (Z.pos 2) with 2.
      destruct neg.
      * pose proof (go_shape_neg i M (2 ^ Z.pos p) HP HM Hi) as G.
        destruct (M mod 2 ^ Z.pos p =? 0); exact G.
      * pose proof (go_shape_pos i M (2 ^ Z.pos p) HP HM Hi) as G.
        destruct (M mod 2 ^ Z.pos p =? 0); exact G.
Qed.
