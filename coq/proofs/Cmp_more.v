(* More lemmas about model/Cmp.v (C12): the order can be sorted by - a comparison sort driven by Cmp yields a sorted
   permutation, and the sorted arrangement of a collection is unique up to order-equivalence, position by position
   (so the result of sorting does not depend on the input order nor on the algorithm); min / max do not depend on
   the order of their arguments either. *)
From Coq Require Import List ZArith NArith Bool Lia Sorted Permutation.
From GrolModel Require Import Values Cmp.
From GrolProofs Require Import Cmp_proofs.
Import ListNotations.

(* ---- the order through the total three-way function cmp_c *)
Lemma cc_sym : forall x y, cmp_c y x = CompOpp (cmp_c x y).
Proof. intros x y. destruct (cmp_c_wo x) as (_ & S & _). apply S. Qed.
Lemma cc_eq_l : forall x y z, cmp_c x y = Eq -> cmp_c x z = cmp_c y z.
Proof. intros x y z. destruct (cmp_c_wo x) as (_ & _ & T1 & _). apply T1. Qed.
Lemma cc_eq_r : forall x y z, cmp_c x y = Eq -> cmp_c z x = cmp_c z y.
Proof. intros x y z H. rewrite (cc_sym x z), (cc_sym y z), (cc_eq_l x y z H). reflexivity. Qed.
Lemma cc_lt_le : forall x y z, cmp_c x y = Lt -> cmp_c y z <> Gt -> cmp_c x z = Lt.
Proof. intros x y z. destruct (cmp_c_wo x) as (_ & _ & _ & T2). apply T2. Qed.
Lemma cc_gt_lt : forall x y, cmp_c x y = Gt -> cmp_c y x = Lt.
Proof. intros x y H. rewrite cc_sym, H. reflexivity. Qed.
Lemma cc_lt_gt : forall x y, cmp_c x y = Lt -> cmp_c y x = Gt.
Proof. intros x y H. rewrite cc_sym, H. reflexivity. Qed.
(* y <= h < x  ->  x > y *)
Lemma cc_gt_ge : forall x h y, cmp_c x h = Gt -> cmp_c y h <> Gt -> cmp_c x y = Gt.
Proof.
  intros x h y H1 H2. apply cc_gt_lt in H1.
  destruct (cmp_c y x) eqn:E.
  - exfalso. apply H2. apply cc_lt_gt. rewrite (cc_eq_r y x h E). exact H1.
  - apply cc_lt_gt. exact E.
  - exfalso. (* x < y and h < x : h < y, so cmp y h = Gt *)
    apply H2. apply cc_lt_gt. apply cc_lt_le with x; auto. rewrite (cc_gt_lt y x E). discriminate.
Qed.

Lemma vle_cc : forall a b, vle a b <-> cmp_c a b <> Gt.
Proof. intros a b. rewrite vle_iff, cmp_c_sc. tauto. Qed.
Lemma veq_cc : forall a b, veq a b <-> cmp_c a b = Eq.
Proof.
  intros a b. unfold veq. rewrite cmp_c_spec. split; intro H; [inversion H; reflexivity | rewrite H; reflexivity].
Qed.

(* ---- insertion sort driven by Cmp *)
Fixpoint vinsert (x : value) (l : list value) : list value :=
  match l with
  | [] => [x]
  | h :: t => match cmp_c x h with Gt => h :: vinsert x t | _ => x :: h :: t end
  end.
Definition vsort (l : list value) : list value := fold_right vinsert [] l.

Lemma vinsert_perm : forall x l, Permutation (x :: l) (vinsert x l).
Proof.
  intros x l. induction l as [|h t IH]; simpl; auto.
  destruct (cmp_c x h); auto.
  eapply perm_trans; [apply perm_swap|]. apply perm_skip. exact IH.
Qed.

Lemma vsort_perm : forall l, Permutation l (vsort l).
Proof.
  induction l as [|x l IH]; simpl; auto.
  eapply perm_trans; [apply perm_skip; exact IH|]. apply vinsert_perm.
Qed.

Lemma Forall_vinsert : forall (P : value -> Prop) x l, P x -> Forall P l -> Forall P (vinsert x l).
Proof.
  intros P x l Hx HF. induction HF as [|h t Hh Ht IH]; simpl; auto.
  destruct (cmp_c x h); auto.
Qed.

Lemma vinsert_sorted : forall x l, StronglySorted vle l -> StronglySorted vle (vinsert x l).
Proof.
  intros x l HS. induction HS as [|h t Ht IH Hh]; simpl.
  - constructor; constructor.
  - destruct (cmp_c x h) eqn:E.
    + constructor; [constructor; assumption|]. constructor.
      * apply vle_cc. rewrite E. discriminate.
      * rewrite Forall_forall in *. intros y Hy. apply vle_trans with h; auto. apply vle_cc. rewrite E. discriminate.
    + constructor; [constructor; assumption|]. constructor.
      * apply vle_cc. rewrite E. discriminate.
      * rewrite Forall_forall in *. intros y Hy. apply vle_trans with h; auto. apply vle_cc. rewrite E. discriminate.
    + constructor; auto. apply Forall_vinsert; auto. apply vle_cc. rewrite (cc_gt_lt x h E). discriminate.
Qed.

Lemma vsort_sorted : forall l, StronglySorted vle (vsort l).
Proof. induction l as [|x l IH]; simpl; [constructor|]. apply vinsert_sorted. exact IH. Qed.

(* a sorted list is left as it is *)
Lemma vsort_of_sorted : forall l, StronglySorted vle l -> vsort l = l.
Proof.
  intros l HS. induction HS as [|h t Ht IH Hh]; simpl; auto.
  rewrite IH. destruct t as [|h2 t2]; simpl; auto.
  inversion Hh as [|? ? H1 _]; subst. apply vle_cc in H1. destruct (cmp_c h h2); auto. congruence.
Qed.

Lemma Forall2_veq_refl : forall l, Forall2 veq l l.
Proof. induction l; constructor; auto. apply veq_refl. Qed.

Lemma Forall2_veq_trans : forall l1 l2 l3, Forall2 veq l1 l2 -> Forall2 veq l2 l3 -> Forall2 veq l1 l3.
Proof.
  intros l1 l2 l3 H. revert l3. induction H as [|a b t1 t2 Hab Ht IH]; intros l3 H3; inversion H3; subst; constructor.
  - eapply veq_trans; eauto.
  - apply IH. assumption.
Qed.

(* inserting into equivalent lists goes to the same position *)
Lemma vinsert_equiv : forall x s s', Forall2 veq s s' -> Forall2 veq (vinsert x s) (vinsert x s').
Proof.
  intros x s s' H. induction H as [|h h' t t' Hh Ht IH]; simpl.
  - apply Forall2_veq_refl.
  - pose proof Hh as Hv. apply veq_cc in Hh. rewrite <- (cc_eq_r h h' x Hh).
    destruct (cmp_c x h).
    + constructor; [apply veq_refl|]. constructor; assumption.
    + constructor; [apply veq_refl|]. constructor; assumption.
    + constructor; assumption.
Qed.

(* two insertions commute up to equivalence *)
Lemma two_front : forall x y t, Forall2 veq
  (match cmp_c y x with Gt => x :: y :: t | _ => y :: x :: t end)
  (match cmp_c x y with Gt => y :: x :: t | _ => x :: y :: t end).
Proof.
  intros x y t. rewrite (cc_sym y x).
  destruct (cmp_c y x) eqn:E; simpl.
  - constructor; [apply veq_cc; exact E|]. constructor; [apply veq_cc; rewrite cc_sym, E; reflexivity|]. apply Forall2_veq_refl.
  - apply Forall2_veq_refl.
  - apply Forall2_veq_refl.
Qed.

Lemma vinsert_comm : forall x y s, Forall2 veq (vinsert y (vinsert x s)) (vinsert x (vinsert y s)).
Proof.
  intros x y s. induction s as [|h t IH].
  - simpl. destruct (cmp_c y x) eqn:E1; destruct (cmp_c x y) eqn:E2; simpl;
      try (rewrite cc_sym, E2 in E1; discriminate); try apply Forall2_veq_refl.
    constructor; [apply veq_cc; exact E1|]. constructor; [apply veq_cc; exact E2|]. constructor.
  - simpl. destruct (cmp_c x h) eqn:Ex; destruct (cmp_c y h) eqn:Ey; simpl; rewrite ?Ex, ?Ey.
    all: try (apply two_front).
    + (* x <= h, y > h *)
      rewrite (cc_gt_ge y h x Ey) by (rewrite Ex; discriminate). simpl. rewrite ?Ex, ?Ey. apply Forall2_veq_refl.
    + rewrite (cc_gt_ge y h x Ey) by (rewrite Ex; discriminate). simpl. rewrite ?Ex, ?Ey. apply Forall2_veq_refl.
    + rewrite (cc_gt_ge x h y Ex) by (rewrite Ey; discriminate). simpl. rewrite ?Ex, ?Ey. apply Forall2_veq_refl.
    + rewrite (cc_gt_ge x h y Ex) by (rewrite Ey; discriminate). simpl. rewrite ?Ex, ?Ey. apply Forall2_veq_refl.
    + constructor; [apply veq_refl|]. exact IH.
Qed.

Lemma vsort_perm_equiv : forall l l', Permutation l l' -> Forall2 veq (vsort l) (vsort l').
Proof.
  intros l l' HP. induction HP; simpl.
  - constructor.
  - apply vinsert_equiv. exact IHHP.
  - apply vinsert_comm.
  - eapply Forall2_veq_trans; eauto.
Qed.

(* the sorted arrangement is unique up to order-equivalence, position by position *)
Lemma sorted_unique : forall l1 l2,
  Permutation l1 l2 -> StronglySorted vle l1 -> StronglySorted vle l2 -> Forall2 veq l1 l2.
Proof.
  intros l1 l2 HP H1 H2.
  rewrite <- (vsort_of_sorted l1 H1), <- (vsort_of_sorted l2 H2). apply vsort_perm_equiv. exact HP.
Qed.

(* min / max do not depend on the order of the arguments (up to order-equivalence) *)
Lemma vmin_order_independent : forall x l y l' m m',
  Permutation (x :: l) (y :: l') -> vmin x l = Val m -> vmin y l' = Val m' -> veq m m'.
Proof.
  intros x l y l' m m' HP E1 E2.
  destruct (vmin_spec l x) as (a & Ea & Ina & La). destruct (vmin_spec l' y) as (b & Eb & Inb & Lb).
  rewrite E1 in Ea. rewrite E2 in Eb. inversion Ea; inversion Eb; subst a b.
  apply vle_antisym.
  - apply La. apply Permutation_sym in HP. apply (Permutation_in _ HP). exact Inb.
  - apply Lb. apply (Permutation_in _ HP). exact Ina.
Qed.

Lemma vmax_order_independent : forall x l y l' m m',
  Permutation (x :: l) (y :: l') -> vmax x l = Val m -> vmax y l' = Val m' -> veq m m'.
Proof.
  intros x l y l' m m' HP E1 E2.
  destruct (vmax_spec l x) as (a & Ea & Ina & La). destruct (vmax_spec l' y) as (b & Eb & Inb & Lb).
  rewrite E1 in Ea. rewrite E2 in Eb. inversion Ea; inversion Eb; subst a b.
  apply vle_antisym.
  - apply Lb. apply (Permutation_in _ HP). exact Ina.
  - apply La. apply Permutation_sym in HP. apply (Permutation_in _ HP). exact Inb.
Qed.
