(* C14, round trip part 3: eval_lit inverts lit_tree, the fuel of front_parse suffices, and the theorem
   [value_roundtrip]: read_back (save_line k v) = Some (k, v) for every value of the domain without finite floats,
   through the Lexer model (SaveLoad_lex), the Parser model (SaveLoad_parse) and eval_lit; with dec_conv, the
   model's own decimal conversion.  Corollary: inspect is injective there. *)
From Coq Require Import List ZArith NArith Bool Lia String Sorting.Sorted.
From GrolGen Require Import Gen_Consts Gen_Prec Gen_ParserTables.
From GrolModel Require Import Ast Lexer Parser Printer Frontend Values Cmp Maps SaveLoad.
From GrolProofs Require Import Cmp_proofs Maps_proofs SaveLoad_proofs SaveLoad_lex SaveLoad_parse.
Import ListNotations.
Local Open Scope Z_scope.

(* ---- what in_domain says, per constructor *)
Lemma in_dom_arr l : in_domain (VArr l) = true -> Forall (fun x => in_domain x = true) l.
Proof.
  cbn [in_domain]. intro H. induction l as [|x r IH]; [constructor|]. cbn [forallb] in H.
  apply andb_true_iff in H. destruct H as [A1 A2]. constructor; [exact A1|exact (IH A2)].
Qed.

Lemma in_dom_map l : in_domain (VMap l) = true ->
  keys_sorted l = true /\
  Forall (fun p => in_domain (fst p) = true /\ in_domain (snd p) = true /\ equals (fst p) (fst p) = Val true) l.
Proof.
  cbn [in_domain]. intro H. apply andb_true_iff in H. destruct H as [HS H1]. split; [exact HS|]. clear HS.
  induction l as [|[k x] r IH]; [constructor|].
  apply andb_true_iff in H1. destruct H1 as [A123 A4]. apply andb_true_iff in A123. destruct A123 as [A12 A3].
  apply andb_true_iff in A12. destruct A12 as [A1 A2].
  constructor; [|exact (IH A4)]. cbn [fst snd]. repeat split; auto.
  destruct (equals k k) as [[|]|]; try discriminate. reflexivity.
Qed.

Lemma float_dom_parts f : float_in_domain f = true -> fl_wf f = true /\ text_plain f = true.
Proof.
  unfold float_in_domain. intro H. apply andb_true_iff in H. destruct H as [H _].
  apply andb_true_iff in H. exact H.
Qed.

Lemma in_dom_lex : forall v, in_domain v = true -> lex_dom v = true.
Proof.
  induction v using value_ind2; intro D; cbn [lex_dom]; try reflexivity.
  - cbn [in_domain] in D. destruct (float_dom_parts f D) as [_ T]. destruct f; try reflexivity. exact T.
  - cbn [in_domain] in D. apply andb_true_iff in D. destruct D as [_ D]. exact D.
  - discriminate.
  - pose proof (in_dom_arr l D) as F. clear D. induction H as [|x r Hx Hr IH]; [reflexivity|].
    inversion F; subst. cbn [forallb]. rewrite Hx by assumption. apply IH. assumption.
  - destruct (in_dom_map l D) as [_ F]. clear D. induction H as [|[k x] r Hx Hr IH]; [reflexivity|].
    inversion F as [|? ? [F1 [F2 _]] Fr]; subst. cbn [fst snd] in *. destruct Hx as [Hk Hv].
    rewrite (Hk F1), (Hv F2). cbn [andb]. apply IH. exact Fr.
Qed.

(* the number conversion does its job on every finite float of v (decidable for a given conversion) *)
Fixpoint floats_conv (conv : numconv) (v : value) {struct v} : bool :=
  match v with
  | VFloat (FFin _ m e) => float_conv_ok conv m e
  | VArr l => forallb (floats_conv conv) l
  | VMap l =>
    (fix go (ps : list (value * value)) : bool :=
       match ps with [] => true | (k, x) :: r => floats_conv conv k && floats_conv conv x && go r end) l
  | _ => true
  end.

Lemma in_dom_pdom conv : forall v, in_domain v = true -> floats_conv conv v = true -> pdom conv v = true.
Proof.
  induction v using value_ind2; intros D C; cbn [pdom]; try reflexivity.
  - cbn [in_domain] in D. apply andb_true_iff in D. destruct D as [D1 D2]. unfold in_int64 in D1.
    apply andb_true_iff in D1. destruct D1 as [A Bd].
    apply negb_true_iff in D2. apply Z.eqb_neq in D2. apply Z.leb_le in A. apply Z.leb_le in Bd.
    apply andb_true_iff. split; [apply Z.ltb_lt; lia|apply Z.leb_le; exact Bd].
  - cbn [in_domain] in D. destruct (float_dom_parts f D) as [_ T]. destruct f; try reflexivity.
    cbn [text_plain] in T. cbn [floats_conv] in C. rewrite T, C. reflexivity.
  - discriminate.
  - pose proof (in_dom_arr l D) as F. clear D. cbn [floats_conv] in C. induction H as [|x r Hx Hr IH]; [reflexivity|].
    inversion F; subst. cbn [forallb] in *. apply andb_true_iff in C. destruct C as [C1 C2].
    rewrite Hx by assumption. apply IH; assumption.
  - destruct (in_dom_map l D) as [_ F]. clear D. cbn [floats_conv] in C. induction H as [|[k x] r Hx Hr IH]; [reflexivity|].
    inversion F as [|? ? [F1 [F2 _]] Fr]; subst. cbn [fst snd] in *. destruct Hx as [Hk Hv].
    apply andb_true_iff in C. destruct C as [C12 C3]. apply andb_true_iff in C12. destruct C12 as [C1 C2].
    rewrite (Hk F1 C1), (Hv F2 C2). cbn [andb]. apply IH; assumption.
Qed.

(* nothing to ask of the conversion when there is no finite float *)
Lemma no_finite_float_conv conv : forall v, no_finite_float v = true -> floats_conv conv v = true.
Proof.
  induction v using value_ind2; intro D; cbn [floats_conv]; try reflexivity.
  - destruct f; try reflexivity. discriminate.
  - cbn [no_finite_float] in D. induction H as [|x r Hx Hr IH]; [reflexivity|]. cbn [forallb] in *.
    apply andb_true_iff in D. destruct D as [D1 D2]. rewrite (Hx D1). exact (IH D2).
  - cbn [no_finite_float] in D. induction H as [|[k x] r Hx Hr IH]; [reflexivity|].
    apply andb_true_iff in D. destruct D as [D12 D3]. apply andb_true_iff in D12. destruct D12 as [D1 D2].
    cbn [fst snd] in Hx. destruct Hx as [Hk Hv]. rewrite (Hk D1), (Hv D2). exact (IH D3).
Qed.

(* ================================================================ eval_lit inverts lit_tree *)
Notation vsorted := (Maps_proofs.sorted value value cmp_c).
Notation vklt := (Maps_proofs.klt value value cmp_c).

Lemma keys_sorted_sorted l : keys_sorted l = true -> vsorted l.
Proof.
  induction l as [|[k x] r IH]; intro H; [constructor|].
  destruct r as [|[k' x'] r'].
  - constructor; constructor.
  - cbn [keys_sorted] in H. apply andb_true_iff in H. destruct H as [H1 H2].
    specialize (IH H2). constructor; [exact IH|].
    assert (L : cmp_c k k' = Lt) by (destruct (cmp_c k k'); try discriminate; reflexivity).
    inversion IH as [|? ? S' F]; subst. constructor; [exact L|].
    eapply Forall_impl; [|exact F]. intros a Ha. unfold Maps_proofs.klt in *. cbn [fst] in *.
    eapply (kc_lt_trans value cmp_c cmp_c_is_weak_order); eauto.
Qed.

Lemma sorted_app_lt (a b : list (value * value)) : vsorted (a ++ b) ->
  forall p q, In p a -> In q b -> vklt p q.
Proof.
  induction a as [|x a IH]; intros S p q Hp Hq; [destruct Hp|].
  cbn [app] in S. inversion S as [|? ? S' F]; subst. destruct Hp as [->|Hp].
  - rewrite Forall_forall in F. apply F. apply in_or_app. right. exact Hq.
  - eapply IH; eauto.
Qed.

Lemma s_set_append (done : list (value * value)) k v :
  (forall p, In p done -> cmp_c (fst p) k = Lt) -> s_set value value cmp_c done k v = done ++ [(k, v)].
Proof.
  induction done as [|[k0 v0] t IH]; intro H; cbn [s_set app]; [reflexivity|].
  pose proof (H (k0, v0) (or_introl eq_refl)) as L. cbn [fst] in L. rewrite L. f_equal. apply IH. intros p Hp. apply H. right. exact Hp.
Qed.

Lemma map_fill_sorted : forall todo done (m : gmap value value),
  Maps_proofs.Inv value value cmp_c m -> elems value value m = done -> vsorted (done ++ todo) ->
  Forall (fun p => equals (fst p) (fst p) = Val true) todo ->
  exists m', map_fill (map (fun p => (Some (fst p), Some (snd p))) todo) m = Some m' /\
             elems value value m' = done ++ todo.
Proof.
  induction todo as [|[k v] r IH]; intros done m HI HE HS HQ; cbn [map map_fill].
  - exists m. rewrite app_nil_r. auto.
  - inversion HQ as [|? ? Q1 Qr]; subst. cbn [fst snd] in *. rewrite Q1.
    destruct (mset_refines value value cmp_c cmp_c_is_weak_order m k v HI) as [m1 [E1 [L1 I1]]].
    rewrite E1.
    assert (A : s_set value value cmp_c (elems value value m) k v = elems value value m ++ [(k, v)]).
    { apply s_set_append. intros p Hp.
      apply (sorted_app_lt (elems value value m) ((k, v) :: r) HS p (k, v) Hp (or_introl eq_refl)). }
    rewrite A in L1.
    destruct (IH (elems value value m ++ [(k, v)]) m1 I1 L1) as [m' [E' L']].
    + rewrite <- app_assoc. exact HS.
    + exact Qr.
    + exists m'. split; [exact E'|]. rewrite L', <- app_assoc. reflexivity.
Qed.

Lemma all_some_map_some {A} (l : list A) : all_some (map (@Some A) l) = Some l.
Proof. induction l as [|x r IH]; [reflexivity|]. cbn [map all_some]. rewrite IH. reflexivity. Qed.

Lemma fl_eqb_eq a b : fl_eqb a b = true -> a = b.
Proof.
  destruct a as [|x|x m e], b as [|y|y n f]; cbn [fl_eqb]; try discriminate; intro H.
  - reflexivity.
  - apply Bool.eqb_prop in H. subst. reflexivity.
  - apply andb_true_iff in H. destruct H as [H12 H3]. apply andb_true_iff in H12. destruct H12 as [H1 H2].
    apply Bool.eqb_prop in H1. apply N.eqb_eq in H2. apply Z.eqb_eq in H3. subst. reflexivity.
Qed.

Theorem eval_lit_tree : forall v, in_domain v = true -> eval_lit (lit_tree v) = Some v.
Proof.
  induction v using value_ind2; intro D.
  - (* integers *)
    cbn [in_domain] in D. apply andb_true_iff in D. destruct D as [_ D2].
    apply negb_true_iff in D2. apply Z.eqb_neq in D2.
    destruct z as [|q|q]; cbn [lit_tree eval_lit]; reflexivity.
  - (* floats *)
    cbn [in_domain] in D. destruct (float_dom_parts f D) as [W _].
    destruct f as [|[|]|neg m e]; try reflexivity.
    unfold fl_wf in W. apply andb_true_iff in W. destruct W as [_ W]. cbn [fl_abs] in W.
    unfold fl_canonical in W. apply fl_eqb_eq in W.
    destruct neg; cbn [lit_tree eval_lit].
    + change (Z.eqb (ttype (tok_of t_minus)) token_MINUS) with true. cbv iota. cbn [eval_lit]. rewrite W. reflexivity.
    + rewrite W. reflexivity.
  - destruct b; reflexivity.
  - reflexivity.
  - reflexivity.
  - discriminate.
  - (* arrays *)
    pose proof (in_dom_arr l D) as F. cbn [lit_tree eval_lit]. rewrite map_map.
    assert (E : map (fun x => eval_lit (lit_tree x)) l = map (@Some value) l).
    { clear D. induction H as [|x r Hx Hr IH]; [reflexivity|]. inversion F; subst. cbn [map].
      rewrite Hx by assumption. f_equal. apply IH. assumption. }
    rewrite E, all_some_map_some. reflexivity.
  - (* maps *)
    destruct (in_dom_map l D) as [HS F]. rewrite lit_tree_map_unfold. cbn [eval_lit]. rewrite map_map.
    assert (E : map (fun kv => (match fst (pair_tree kv) with Some k => eval_lit k | None => None end,
                                match snd (pair_tree kv) with Some v => eval_lit v | None => None end)) l
                = map (fun p => (Some (fst p), Some (snd p))) l).
    { clear D HS. induction H as [|[k x] r Hx Hr IH]; [reflexivity|].
      inversion F as [|? ? [F1 [F2 _]] Fr]; subst. cbn [fst snd] in *. destruct Hx as [Hk Hv].
      cbn [map pair_tree fst snd]. rewrite (Hk F1), (Hv F2). f_equal. apply IH. exact Fr. }
    rewrite E. rewrite map_length.
    destruct (Inv_new value value cmp_c (Z.of_nat (List.length l))) as [I0 E0].
    destruct (map_fill_sorted l [] _ I0 E0) as [m' [EM EL]].
    + cbn [app]. apply keys_sorted_sorted. exact HS.
    + eapply Forall_impl; [|exact F]. intros a [_ [_ Ha]]. exact Ha.
    + rewrite EM. unfold vmap_elems. rewrite EL. reflexivity.
Qed.

(* ================================================================ the fuel of front_parse suffices *)
Lemma tjoin_length_bound (sep : ptok) : forall (ls : list (list ptok)) (w : list nat),
  Forall2 (fun toks n => (n <= 4 * List.length toks + 2)%nat) ls w ->
  (fold_right (fun n a => n + a) 0 w + 2 <= 4 * List.length (tjoin [sep] ls) + 4)%nat.
Proof.
  induction 1 as [|toks n ls' w' Hx Hr IH]; [cbn; lia|].
  destruct Hr as [|toks2 n2 ls2 w2 Hx2 Hr2].
  - cbn [fold_right tjoin]. lia.
  - change (tjoin [sep] (toks :: toks2 :: ls2)) with (toks ++ [sep] ++ tjoin [sep] (toks2 :: ls2)).
    rewrite !app_length. cbn [List.length].
    change (fold_right (fun n a => n + a) 0 (n :: n2 :: w2))%nat with (n + fold_right (fun n a => n + a) 0 (n2 :: w2))%nat.
    lia.
Qed.

Lemma need_le_toks : forall v, par_dom v = true -> (need v <= 4 * List.length (vtoks v))%nat.
Proof.
  induction v using value_ind2; intro D; cbn [par_dom] in D; try discriminate.
  - destruct z; cbn; lia.
  - destruct f as [|[|]|[|] m e]; cbn [need vtoks app List.length]; lia.
  - destruct b; cbn; lia.
  - cbn; lia.
  - cbn; lia.
  - (* arrays *)
    cbn [need vtoks List.length]. rewrite app_length. cbn [List.length].
    assert (Bd : (fold_right (fun n a => n + a) 0 (map (fun x => need x + 2) l) + 2
                 <= 4 * List.length (tjoin [t_comma] (map vtoks l)) + 4)%nat).
    { apply tjoin_length_bound. clear -H D. induction H as [|x r Hx Hr IH]; cbn [map]; [constructor|].
      cbn [forallb] in D. apply andb_true_iff in D. destruct D as [D1 D2].
      constructor; [specialize (Hx D1); lia|exact (IH D2)]. }
    assert (E : fold_right (fun x a => need x + 2 + a)%nat 0%nat l = fold_right (fun n a => n + a)%nat 0%nat (map (fun x => need x + 2)%nat l)).
    { clear. induction l as [|x r IH]; [reflexivity|]. cbn [fold_right map]. rewrite IH. reflexivity. }
    rewrite E. lia.
  - (* maps *)
    rewrite need_map_unfold, vtoks_map_unfold. cbn [List.length]. rewrite app_length. cbn [List.length].
    assert (Bd : (fold_right (fun n a => n + a) 0 (map pair_need l) + 2
                 <= 4 * List.length (tjoin [t_comma] (map pair_toks l)) + 4)%nat).
    { apply tjoin_length_bound. clear -H D. induction H as [|[k x] r Hx Hr IH]; cbn [map]; [constructor|].
      apply andb_true_iff in D. destruct D as [D12 D3]. apply andb_true_iff in D12. destruct D12 as [D1 D2].
      cbn [fst snd] in Hx. destruct Hx as [Hk Hv]. specialize (Hk D1). specialize (Hv D2).
      constructor; [|exact (IH D3)]. unfold pair_need, pair_toks. cbn [fst snd]. rewrite !app_length. cbn [List.length]. lia. }
    assert (E : fold_right (fun p a => pair_need p + a)%nat 0%nat l = fold_right (fun n a => n + a)%nat 0%nat (map pair_need l)).
    { clear. induction l as [|x r IH]; [reflexivity|]. cbn [fold_right map]. rewrite IH. reflexivity. }
    rewrite E. lia.
Qed.

(* ================================================================ the line: name = value *)
Section Line.
Variable conv : numconv.
Hypothesis conv_ints : forall n, (Z.of_N n <= max_int64) -> conv_int conv (fmt_nat n) = Some (Z.of_N n).

Lemma init_state_two a b r : init_state endt (a :: b :: r) = st_at dummy_tok (a :: b :: r).
Proof. destruct r as [|c r']; reflexivity. Qed.

Lemma parseStatement_S f s :
  parseStatement conv (S f) s =
  if curIs s token_RETURN then
    let t := pk (ps_cur s) in
    if peekIs s token_SEMICOLON || peekIs s token_RBRACE || peekIs s token_EOF || peekIs s token_EOL
       || peekIs s token_LINECOMMENT
    then ROk (Some (NReturn t None)) s
    else
      match parseExpression conv f ast_LOWEST (nextToken s) with
      | ROk v s1 => ROk (Some (NReturn t v)) (if peekIs s1 token_SEMICOLON then nextToken s1 else s1)
      | RPanic w => RPanic w
      | RFuel => RFuel
      end
  else
    match parseExpression conv f ast_LOWEST s with
    | ROk e s1 => ROk e (if peekIs s1 token_SEMICOLON then nextToken s1 else s1)
    | RPanic w => RPanic w
    | RFuel => RFuel
    end.
Proof. reflexivity. Qed.

Lemma programLoop_S f acc s :
  programLoop conv (S f) acc s =
  if curIs s token_EOF || curIs s token_EOL then ROk acc s
  else
    match parseStatement conv f s with
    | ROk st s1 =>
      match st with
      | None => ROk acc s1
      | Some _ => programLoop conv f (acc ++ [st]) (nextToken s1)
      end
    | RPanic w => RPanic w
    | RFuel => RFuel
    end.
Proof. reflexivity. Qed.

Definition line_tree (k : bytes) (v : value) : node :=
  NInfix (tok_of t_assign) (Some (NIdent (mkTok token_IDENT k))) (Some (lit_tree v)).

(* the parser on the tokens of a saved line *)
Lemma parse_line k v f :
  pdom conv v = true -> (need v + 8 <= f)%nat ->
  parse_program conv f token_EOF (ptk token_IDENT k :: t_assign :: vtoks v ++ [eof_ptok]) =
  POk (mkPres (Some (line_tree k v) :: nil) nil false true).
Proof.
  intros D Hf. unfold parse_program. change (mkPtok (mkTok token_EOF []) false false) with endt.
  rewrite init_state_two.
  destruct f as [|[|[|[|[|[|f5]]]]]]; try lia.
  rewrite programLoop_S. rewrite !curIs_st_at.
  change (Z.eqb (pty (ptk token_IDENT k)) token_EOF || Z.eqb (pty (ptk token_IDENT k)) token_EOL)%bool with false. cbv iota.
  rewrite parseStatement_S. rewrite curIs_st_at. change (Z.eqb (pty (ptk token_IDENT k)) token_RETURN) with false. cbv iota.
  (* the identifier *)
  rewrite parseExpression_S. rewrite curIs_st_at. change (Z.eqb (pty (ptk token_IDENT k)) token_EOL) with false. cbv iota.
  rewrite cur_st_at. change (pty (ptk token_IDENT k)) with token_IDENT. rewrite T_ident.
  rewrite prefix_ident. unfold parseIdentifier. rewrite peek_st_at.
  change (hd_ty (t_assign :: vtoks v ++ [eof_ptok])) with token_ASSIGN. rewrite T_assign_nopost.
  rewrite peekIs_st_at. change (hd_ty (t_assign :: vtoks v ++ [eof_ptok])) with token_ASSIGN.
  change (Z.eqb token_ASSIGN token_LAMBDA) with false. cbn [andb].
  (* the assignment operator *)
  rewrite exprLoop_S. rewrite peekIs_st_at. change (hd_ty (t_assign :: vtoks v ++ [eof_ptok])) with token_ASSIGN.
  change (Z.eqb token_ASSIGN token_SEMICOLON) with false. cbn [negb andb].
  unfold peekPrecedence. rewrite peek_st_at. change (hd_ty (t_assign :: vtoks v ++ [eof_ptok])) with token_ASSIGN.
  rewrite T_prec_assign. cbv zeta. rewrite T_assign_infix.
  change (Z.eqb token_ASSIGN token_LPAREN || Z.eqb token_ASSIGN token_LBRACKET)%bool with false. cbn [andb].
  rewrite nextToken_st_at. rewrite infix_infix. cbv zeta. rewrite cur_st_at.
  change (Z.eqb (ttype (pk t_assign)) token_COLON) with false. cbn [andb].
  rewrite nextToken_st_at.
  (* the value *)
  destruct (parses_stop conv v (parse_value conv conv_ints v D) f5
              (curPrecedence (st_at (pk (ptk token_IDENT k)) (t_assign :: vtoks v ++ [eof_ptok]))) (pk t_assign) [eof_ptok])
    as [p1 [cl1 E1]]; [lia|reflexivity| |].
  { unfold stops, curPrecedence. rewrite cur_st_at. change (hd_ty [eof_ptok]) with token_EOF.
    rewrite T_prec_eof. pose proof T_prec_assign as K. apply Z.ltb_lt in K.
    change (pty t_assign) with token_ASSIGN. apply Z.ltb_ge. lia. }
  rewrite E1.
  rewrite exprLoop_stop; [|reflexivity|unfold stops; change (hd_ty [eof_ptok]) with token_EOF; rewrite T_prec_eof; apply Z.ltb_irrefl].
  rewrite peekIs_st_at. change (hd_ty [eof_ptok]) with token_EOF. change (Z.eqb token_EOF token_SEMICOLON) with false. cbv iota.
  rewrite nextToken_st_at. rewrite programLoop_S. rewrite curIs_st_at.
  change (Z.eqb (pty eof_ptok) token_EOF) with true. cbn [orb].
  reflexivity.
Qed.

(* ---- the theorem, for any number conversion that inverts FormatInt and does its job on the floats of v *)
Theorem value_roundtrip_conv k v :
  good_name k = true -> in_domain v = true -> floats_conv conv v = true ->
  read_back conv (save_line k v) = Some (k, v).
Proof.
  intros Hk Hv Hc. unfold read_back, read_back_full, front_parse.
  pose proof (in_dom_pdom conv v Hv Hc) as HP.
  rewrite (lex_line k v Hk (in_dom_lex v Hv)).
  change (end_type false) with token_EOF.
  rewrite parse_line; [|exact HP|].
  - unfold unterminated. cbn [clean pr_errs pr_cont pr_all_lexed negb andb orb pr_tree line_tree].
    change (Z.eqb (ttype (tok_of t_assign)) token_ASSIGN) with true. cbv iota.
    rewrite (eval_lit_tree v Hv). reflexivity.
  - pose proof (need_le_toks v (pdom_par conv v HP)). unfold default_fuel. cbn [List.length]. rewrite app_length. cbn [List.length]. lia.
Qed.
End Line.

(* ================================================================ with the model's own conversion *)
Lemma conv_int_dec n : (Z.of_N n <= max_int64) -> conv_int dec_conv (fmt_nat n) = Some (Z.of_N n).
Proof.
  intro H. cbn [dec_conv conv_int]. unfold dec_int. rewrite fmt_nat_plain, dec_value_fmt_nat.
  apply Z.leb_le in H. rewrite H. reflexivity.
Qed.

(* with the model's own conversion: the guard [floats_conv dec_conv v] is a computation *)
Theorem value_roundtrip_dec k v :
  good_name k = true -> in_domain v = true -> floats_conv dec_conv v = true ->
  read_back dec_conv (save_line k v) = Some (k, v).
Proof. apply value_roundtrip_conv. exact conv_int_dec. Qed.

(* without finite floats nothing is asked of the conversion *)
Theorem value_roundtrip k v :
  good_name k = true -> in_domain v = true -> no_finite_float v = true ->
  read_back dec_conv (save_line k v) = Some (k, v).
Proof. intros Hk Hv Hf. apply value_roundtrip_dec; [exact Hk|exact Hv|]. apply no_finite_float_conv. exact Hf. Qed.

(* two values of the domain with the same printed form are the same value *)
Corollary inspect_injective v w :
  in_domain v = true -> floats_conv dec_conv v = true -> in_domain w = true -> floats_conv dec_conv w = true ->
  inspect v = inspect w -> v = w.
Proof.
  intros Hv Cv Hw Cw E.
  pose proof (value_roundtrip_dec [120%N] v eq_refl Hv Cv) as A.
  pose proof (value_roundtrip_dec [120%N] w eq_refl Hw Cw) as Bd.
  unfold save_line in *. rewrite E in A. rewrite A in Bd. congruence.
Qed.
