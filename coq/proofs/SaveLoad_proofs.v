(* Lemmas about coq/model/SaveLoad.v (property C14).

   1. characters: what Inspect can emit (digits, sign, point, quote escapes): no newline in the printed form of data
   2. SaveGlobals: the write loop equals "one complete line per kept binding, in key order"; the limit skips whole
      bindings; splitting the file at newlines gives back exactly those lines
   3. integers: dec_int inverts fmt_nat
   (the round trip through the Lexer / Parser models is in SaveLoad_roundtrip.v) *)
From Coq Require Import List ZArith NArith Bool Lia String Sorting.Sorted Sorting.Permutation.
From Coq Require Import ZifyN ZifyNat ZifyBool.
From GrolModel Require Import Ast Lexer Parser Printer Frontend Values Cmp Maps SaveLoad.
From GrolProofs Require Import Cmp_proofs.
Import ListNotations.
Local Open Scope N_scope.

(* ================================================================ 1. characters *)
Definition isd (c : N) : Prop := is_digit c = true.
Definition no_nl (l : bytes) : Prop := Forall (fun c => c <> 10) l.

Lemma isd_not_nl c : isd c -> c <> 10.
Proof. unfold isd, is_digit. lia. Qed.

Lemma digits_no_nl l : Forall isd l -> no_nl l.
Proof. intro H. eapply Forall_impl; [|exact H]. intros a. apply isd_not_nl. Qed.

Lemma no_nl_app a b : no_nl a -> no_nl b -> no_nl (a ++ b).
Proof. intros. apply Forall_app. split; assumption. Qed.

Lemma no_nl_app_inv a b : no_nl (a ++ b) -> no_nl a /\ no_nl b.
Proof. intro H. apply Forall_app in H. exact H. Qed.

Lemma digit_isd n : n < 10 -> isd (digit n).
Proof. unfold isd, is_digit, digit. lia. Qed.

Lemma fmt_nat_fuel_digits fuel : forall n acc, Forall isd acc -> Forall isd (fmt_nat_fuel fuel n acc).
Proof.
  induction fuel as [|f IH]; intros n acc H; cbn [fmt_nat_fuel]; [exact H|].
  assert (D : isd (digit (n mod 10))) by (apply digit_isd; apply N.mod_lt; lia).
  destruct (n / 10 =? 0); [constructor; assumption|]. apply IH. constructor; assumption.
Qed.

Lemma fmt_nat_digits n : Forall isd (fmt_nat n).
Proof. apply fmt_nat_fuel_digits. constructor. Qed.

Lemma fmt_int_no_nl z : no_nl (fmt_int z).
Proof.
  destruct z; cbn [fmt_int]; try (apply digits_no_nl, fmt_nat_digits).
  constructor; [lia|]. apply digits_no_nl, fmt_nat_digits.
Qed.

Lemma strip_zeros_rev_sub P l : Forall P l -> Forall P (strip_zeros_rev l).
Proof.
  induction l as [|c r IH]; intro H; cbn [strip_zeros_rev]; [constructor|].
  inversion H; subst. destruct (c =? 48); [apply IH; assumption|exact H].
Qed.

Lemma strip_trailing_zeros_sub (P : N -> Prop) l : Forall P l -> Forall P (strip_trailing_zeros l).
Proof.
  intro H. unfold strip_trailing_zeros. apply Forall_rev. apply strip_zeros_rev_sub. apply Forall_rev. exact H.
Qed.

Lemma zero_pad_digits w l : Forall isd l -> Forall isd (zero_pad w l).
Proof.
  intro H. unfold zero_pad. apply Forall_app. split; [|exact H].
  apply Forall_forall. intros x Hx. apply repeat_spec in Hx. subst. reflexivity.
Qed.

(* what a finite float prints: digits and at most one point *)
Definition num_char (c : N) : Prop := isd c \/ c = 46 \/ c = 63.

Lemma render_dec_chars c q : Forall num_char (render_dec c q).
Proof.
  unfold render_dec. destruct (q <=? 0)%Z.
  - eapply Forall_impl; [|apply fmt_nat_digits]. intros a Ha. left. exact Ha.
  - apply Forall_app. split.
    + eapply Forall_impl; [|apply fmt_nat_digits]. intros a Ha. left. exact Ha.
    + destruct (_ =? 0); [constructor|]. constructor; [right; left; reflexivity|].
      eapply Forall_impl; [|apply strip_trailing_zeros_sub, zero_pad_digits, fmt_nat_digits].
      intros a Ha. left. exact Ha.
Qed.

Lemma fmt_float_abs_chars m e : Forall num_char (fmt_float_abs m e).
Proof.
  unfold fmt_float_abs. destruct (m =? 0); [repeat constructor|].
  destruct (shortest m e) as [[c q]|]; [apply render_dec_chars|].
  constructor; [right; right; reflexivity|constructor].
Qed.

Lemma num_char_no_nl l : Forall num_char l -> no_nl l.
Proof.
  intro H. eapply Forall_impl; [|exact H]. intros a [Ha|[Ha|Ha]]; [apply isd_not_nl; exact Ha|lia|lia].
Qed.

Ltac lit_no_nl := unfold no_nl; cbn; repeat constructor; lia.

Lemma fmt_float_no_nl f : no_nl (fmt_float f).
Proof.
  destruct f as [|neg|neg m e]; cbn [fmt_float].
  - lit_no_nl.
  - destruct neg; lit_no_nl.
  - apply no_nl_app; [destruct neg; lit_no_nl|]. apply num_char_no_nl, fmt_float_abs_chars.
Qed.

(* strconv.Quote never emits a raw newline (it writes \n) *)
Lemma hexdigit_ge n : 48 <= hexdigit n.
Proof. unfold hexdigit. destruct (n <? 10); lia. Qed.

Lemma qbyte_no_nl c : no_nl (qbyte c).
Proof.
  unfold qbyte.
  repeat match goal with
         | |- context [if ?b then _ else _] => destruct b eqn:?
         end; repeat constructor; try lia.
  - pose proof (hexdigit_ge (c / 16)). lia.
  - pose proof (hexdigit_ge (c mod 16)). lia.
Qed.

Lemma go_quote_no_nl s : no_nl (go_quote s).
Proof.
  unfold go_quote. apply no_nl_app; [repeat constructor; lia|]. apply no_nl_app; [|repeat constructor; lia].
  induction s as [|c r IH]; cbn [flat_map]; [constructor|]. apply no_nl_app; [apply qbyte_no_nl|exact IH].
Qed.

Lemma join_with_no_nl sep l : no_nl sep -> Forall no_nl l -> no_nl (join_with sep l).
Proof.
  intros Hs H. induction H as [|x r Hx Hr IH]; cbn [join_with]; [constructor|].
  destruct r as [|y r']; [exact Hx|]. apply no_nl_app; [exact Hx|]. apply no_nl_app; [exact Hs|exact IH].
Qed.

(* data values: everything except the text-carrying objects (functions, quotes, ...) *)
Fixpoint is_data (v : value) {struct v} : bool :=
  match v with
  | VTxt _ _ => false
  | VArr l => forallb is_data l
  | VMap l =>
    (fix go (ps : list (value * value)) : bool :=
       match ps with [] => true | (k, x) :: r => is_data k && is_data x && go r end) l
  | _ => true
  end.

Lemma bstr_no_nl_true : no_nl (B"true"). Proof. lit_no_nl. Qed.
Lemma bstr_no_nl_false : no_nl (B"false"). Proof. lit_no_nl. Qed.
Lemma bstr_no_nl_nil : no_nl (B"nil"). Proof. lit_no_nl. Qed.

(* ---- one_line: the printed form of a data value holds no newline byte *)
Theorem inspect_no_newline : forall v, is_data v = true -> no_nl (inspect v).
Proof.
  induction v using value_ind2; intro D; cbn [inspect].
  - apply fmt_int_no_nl.
  - apply fmt_float_no_nl.
  - destruct b; [apply bstr_no_nl_true|apply bstr_no_nl_false].
  - apply bstr_no_nl_nil.
  - apply go_quote_no_nl.
  - discriminate.
  - apply no_nl_app; [repeat constructor; lia|]. apply no_nl_app; [|repeat constructor; lia].
    apply join_with_no_nl; [repeat constructor; lia|].
    cbn [is_data] in D. induction H as [|x r Hx Hr IH]; cbn [map]; [constructor|].
    cbn [forallb] in D. apply andb_true_iff in D. destruct D as [D1 D2].
    constructor; [apply Hx; exact D1|apply IH; exact D2].
  - apply no_nl_app; [repeat constructor; lia|]. apply no_nl_app; [|repeat constructor; lia].
    apply join_with_no_nl; [repeat constructor; lia|].
    cbn [is_data] in D. induction H as [|[k x] r Hx Hr IH]; [constructor|].
    apply andb_true_iff in D. destruct D as [D12 D3]. apply andb_true_iff in D12. destruct D12 as [D1 D2].
    cbn [fst snd] in Hx. destruct Hx as [Hk Hv].
    constructor; [|apply IH; exact D3].
    apply no_nl_app; [apply Hk; exact D1|]. apply no_nl_app; [repeat constructor; lia|apply Hv; exact D2].
Qed.

Lemma in_domain_is_data : forall v, in_domain v = true -> is_data v = true.
Proof.
  induction v using value_ind2; intro D; cbn [is_data]; try reflexivity; try discriminate.
  - cbn [in_domain] in D. induction H as [|x r Hx Hr IH]; [reflexivity|].
    cbn [forallb] in *. apply andb_true_iff in D. destruct D as [D1 D2]. rewrite (Hx D1). exact (IH D2).
  - cbn [in_domain] in D. apply andb_true_iff in D. destruct D as [_ D].
    induction H as [|[k x] r Hx Hr IH]; [reflexivity|].
    apply andb_true_iff in D. destruct D as [D123 D4]. apply andb_true_iff in D123. destruct D123 as [D12 D3].
    apply andb_true_iff in D12. destruct D12 as [D1 _].
    cbn [fst snd] in Hx. destruct Hx as [Hk Hv]. rewrite (Hk D1), (Hv D3). exact (IH D4).
Qed.

Lemma save_line_no_newline k v : no_nl k -> is_data v = true -> no_nl (save_line k v).
Proof.
  intros Hk D. unfold save_line. apply no_nl_app; [exact Hk|]. apply no_nl_app; [repeat constructor; lia|].
  apply inspect_no_newline. exact D.
Qed.

(* ================================================================ 2. SaveGlobals *)
(* the line a binding contributes, if any ([store] = the whole root environment, looked at for aliases of functions) *)
Definition line_of (store : list (bytes * sval)) (maxlen : Z) (extras : list bytes) (b : bytes * sval) : option bytes :=
  match save_one store maxlen extras (fst b) (snd b) with LLine l => Some l | _ => None end.

Definition panics (store : list (bytes * sval)) (maxlen : Z) (extras : list bytes) (b : bytes * sval) : bool :=
  match save_one store maxlen extras (fst b) (snd b) with LPanic => true | _ => false end.

Fixpoint kept_lines (store : list (bytes * sval)) (maxlen : Z) (extras : list bytes) (bs : list (bytes * sval)) : list bytes :=
  match bs with
  | [] => []
  | b :: r =>
    match line_of store maxlen extras b with
    | Some l => l :: kept_lines store maxlen extras r
    | None => kept_lines store maxlen extras r
    end
  end.

Definition file_of (lines : list bytes) : bytes := flat_map (fun l => l ++ [10]) lines.

Lemma save_loop_spec store maxlen extras : forall bs out n,
  existsb (panics store maxlen extras) bs = false ->
  save_loop store maxlen extras bs out n =
  Some (out ++ file_of (kept_lines store maxlen extras bs), (n + List.length (kept_lines store maxlen extras bs))%nat).
Proof.
  induction bs as [|[k v] r IH]; intros out n H; cbn [save_loop kept_lines].
  - cbn [file_of flat_map List.length]. rewrite app_nil_r, Nat.add_0_r. reflexivity.
  - cbn [existsb] in H. apply orb_false_iff in H. destruct H as [H1 H2].
    unfold panics, line_of in *. cbn [fst snd] in *.
    destruct (save_one store maxlen extras k v) eqn:E; try discriminate.
    + apply IH. exact H2.
    + apply IH. exact H2.
    + rewrite IH by exact H2. cbn [file_of flat_map List.length]. rewrite <- !app_assoc.
      f_equal. f_equal. lia.
Qed.

(* the loop stops with a panic exactly when some binding's printer panics *)
Lemma save_loop_panic store maxlen extras : forall bs out n,
  existsb (panics store maxlen extras) bs = true -> save_loop store maxlen extras bs out n = None.
Proof.
  induction bs as [|[k v] r IH]; intros out n H; cbn [save_loop existsb] in *; [discriminate|].
  unfold panics in H at 1. cbn [fst snd] in H.
  destruct (save_one store maxlen extras k v) eqn:E; cbn [orb] in H; try (apply IH; exact H). reflexivity.
Qed.

(* ---- sorting *)
Definition key_le (a b : bytes * sval) : Prop := bytes_ltb (fst b) (fst a) = false.

Lemma bytes_ltb_irrefl a : bytes_ltb a a = false.
Proof. induction a as [|x r IH]; cbn; [reflexivity|]. rewrite N.ltb_irrefl. exact IH. Qed.

Lemma bytes_ltb_trans : forall a b c, bytes_ltb a b = true -> bytes_ltb b c = true -> bytes_ltb a c = true.
Proof.
  induction a as [|x a IH]; intros [|y b] [|z c] H1 H2; cbn in *; try discriminate; try reflexivity.
  destruct (x <? y) eqn:Exy.
  - destruct (y <? z) eqn:Eyz.
    + assert (x <? z = true) by lia. rewrite H. reflexivity.
    + destruct (z <? y) eqn:Ezy; [discriminate|]. assert (y = z) by lia. subst. rewrite Exy. reflexivity.
  - destruct (y <? x) eqn:Eyx; [discriminate|]. assert (x = y) by lia. subst.
    destruct (y <? z) eqn:Eyz; [reflexivity|]. destruct (z <? y) eqn:Ezy; [discriminate|].
    eapply IH; eauto.
Qed.

Lemma bytes_ltb_total a : forall b, bytes_ltb a b = false -> bytes_ltb b a = false -> a = b.
Proof.
  induction a as [|x a IH]; intros [|y b] H1 H2; cbn in *; try discriminate; try reflexivity.
  destruct (x <? y) eqn:E1; [discriminate|]. destruct (y <? x) eqn:E2; [discriminate|].
  assert (x = y) by lia. subst. f_equal. apply IH; assumption.
Qed.

Lemma bytes_ltb_asym a b : bytes_ltb a b = true -> bytes_ltb b a = false.
Proof.
  intro H. destruct (bytes_ltb b a) eqn:E; [|reflexivity].
  pose proof (bytes_ltb_trans _ _ _ H E) as K. rewrite bytes_ltb_irrefl in K. discriminate.
Qed.

Lemma key_le_trans a b c : key_le a b -> key_le b c -> key_le a c.
Proof.
  unfold key_le. intros H1 H2. destruct (bytes_ltb (fst c) (fst a)) eqn:E; [|reflexivity].
  destruct (bytes_ltb (fst b) (fst c)) eqn:E2.
  - pose proof (bytes_ltb_trans _ _ _ E2 E). congruence.
  - assert (fst b = fst c) by (apply bytes_ltb_total; assumption). congruence.
Qed.

Lemma insert_key_perm {A} k (v : A) l : Permutation ((k, v) :: l) (insert_key k v l).
Proof.
  induction l as [|[k' v'] r IH]; cbn [insert_key]; [reflexivity|].
  destruct (bytes_ltb k' k); [|reflexivity].
  etransitivity; [apply perm_swap|]. apply perm_skip. exact IH.
Qed.

Lemma sort_keys_perm {A} (l : list (bytes * A)) : Permutation l (sort_keys l).
Proof.
  induction l as [|[k v] r IH]; cbn; [reflexivity|].
  etransitivity; [apply perm_skip; exact IH|]. apply insert_key_perm.
Qed.

Lemma insert_key_sorted k v l : StronglySorted key_le l -> StronglySorted key_le (insert_key k v l).
Proof.
  induction l as [|[k' v'] r IH]; intro S; cbn [insert_key]; [repeat constructor|].
  inversion S as [|? ? S' F]; subst. destruct (bytes_ltb k' k) eqn:E.
  - constructor; [apply IH; exact S'|].
    eapply Permutation_Forall; [apply insert_key_perm|].
    constructor; [|exact F]. unfold key_le. cbn [fst]. apply bytes_ltb_asym. exact E.
  - constructor; [exact S|]. constructor; [unfold key_le; cbn [fst]; exact E|].
    eapply Forall_impl; [|exact F]. intros a Ha. eapply key_le_trans; [|exact Ha]. unfold key_le. cbn [fst]. exact E.
Qed.

Lemma sort_keys_sorted (l : list (bytes * sval)) : StronglySorted key_le (sort_keys l).
Proof.
  induction l as [|[k v] r IH]; cbn; [constructor|]. apply insert_key_sorted. exact IH.
Qed.

(* ---- the limit never truncates: a binding is written in full or not at all *)
Lemma limit_writes_full_line store maxlen extras k v l :
  save_one store maxlen extras k v = LLine l -> save_one store 0 extras k v = LLine l.
Proof.
  unfold save_one, kv_line, too_long. destruct (binding_out store extras k v); try discriminate; auto.
  change (Z.ltb 0 0) with false. cbn [andb]. destruct (_ && _); [discriminate|]. auto.
Qed.

Lemma limit_skips_only_long store maxlen extras k v :
  save_one store maxlen extras k v = LSkipLong ->
  exists val, save_one store 0 extras k v = LLine (k ++ [61] ++ val) /\ (0 < maxlen < Z.of_nat (List.length val))%Z.
Proof.
  unfold save_one, kv_line, too_long. destruct (binding_out store extras k v) as [|l|val|]; try discriminate.
  change (Z.ltb 0 0) with false. cbn [andb]. intro H. exists val. split; [reflexivity|].
  destruct (0 <? maxlen)%Z eqn:E1; destruct (maxlen <? Z.of_nat (List.length val))%Z eqn:E2; cbn [andb] in H; try discriminate. lia.
Qed.

(* the lines written under a limit are a sub-sequence of the lines written without limit *)
Inductive sublist {A} : list A -> list A -> Prop :=
| sub_nil : sublist [] []
| sub_keep : forall x a b, sublist a b -> sublist (x :: a) (x :: b)
| sub_drop : forall x a b, sublist a b -> sublist a (x :: b).

Lemma kept_lines_limit_sublist store maxlen extras bs :
  sublist (kept_lines store maxlen extras bs) (kept_lines store 0 extras bs).
Proof.
  induction bs as [|[k v] r IH]; cbn [kept_lines]; [constructor|].
  unfold line_of. cbn [fst snd].
  destruct (save_one store maxlen extras k v) eqn:E.
  - assert (E0 : save_one store 0 extras k v = LSkipConst).
    { unfold save_one, kv_line in *. destruct (binding_out store extras k v); try discriminate; auto.
      destruct (too_long maxlen val); discriminate. }
    rewrite E0. exact IH.
  - destruct (limit_skips_only_long _ _ _ _ _ E) as [val [E0 _]]. rewrite E0. constructor. exact IH.
  - rewrite (limit_writes_full_line _ _ _ _ _ _ E). constructor. exact IH.
  - destruct (save_one store 0 extras k v); try exact IH. constructor. exact IH.
Qed.

(* ---- splitting the file at newlines gives back the lines *)
Fixpoint split_nl (cur : bytes) (l : bytes) : list bytes :=
  match l with
  | [] => match cur with [] => [] | _ => [rev cur] end
  | c :: r => if c =? 10 then rev cur :: split_nl [] r else split_nl (c :: cur) r
  end.

Lemma split_nl_line : forall l cur rest, no_nl l ->
  split_nl cur (l ++ 10 :: rest) = (rev cur ++ l) :: split_nl [] rest.
Proof.
  induction l as [|c r IH]; intros cur rest H; cbn [app split_nl].
  - rewrite N.eqb_refl, app_nil_r. reflexivity.
  - inversion H; subst. destruct (c =? 10) eqn:E; [lia|].
    rewrite IH by assumption. cbn [rev]. rewrite <- app_assoc. reflexivity.
Qed.

Lemma split_file_of lines : Forall no_nl lines -> split_nl [] (file_of lines) = lines.
Proof.
  induction 1 as [|l r Hl Hr IH]; cbn [file_of flat_map]; [reflexivity|].
  rewrite <- app_assoc. cbn [app]. rewrite split_nl_line by exact Hl. cbn [rev app]. f_equal. exact IH.
Qed.

(* ================================================================ 3. integers: dec_int inverts fmt_nat *)
Lemma digits_val_app : forall a b acc, Forall isd a ->
  digits_val (a ++ b) acc = match digits_val a acc with Some v => digits_val b v | None => None end.
Proof.
  induction a as [|c r IH]; intros b acc H; cbn [app digits_val]; [reflexivity|].
  inversion H as [|? ? Hc Hr]; subst. unfold isd in Hc. rewrite Hc. apply IH. exact Hr.
Qed.

Lemma digits_val_fold : forall l acc, Forall isd l -> digits_val l acc = Some (fold_left (fun a c => a * 10 + (c - 48)) l acc).
Proof.
  induction l as [|c r IH]; intros acc H; cbn [digits_val fold_left]; [reflexivity|].
  inversion H as [|? ? Hc Hr]; subst. unfold isd in Hc. rewrite Hc. apply IH. exact Hr.
Qed.

Lemma fold_dec_app l : forall acc k, List.length l = k ->
  fold_left (fun a c => a * 10 + (c - 48)) l acc = acc * 10 ^ N.of_nat k + fold_left (fun a c => a * 10 + (c - 48)) l 0.
Proof.
  induction l as [|c r IH]; intros acc k Hk; cbn [fold_left List.length] in *.
  - subst. cbn. lia.
  - destruct k as [|k']; [discriminate|]. injection Hk as Hk.
    rewrite (IH (acc * 10 + (c - 48)) k' Hk), (IH (0 * 10 + (c - 48)) k' Hk).
    replace (N.of_nat (S k')) with (N.succ (N.of_nat k')) by lia. rewrite N.pow_succ_r'. lia.
Qed.

Lemma size_nat_bound n : n < 2 ^ N.of_nat (N.size_nat n).
Proof.
  destruct n as [|p]; [cbn; lia|]. cbn [N.size_nat].
  induction p as [p IH|p IH|]; cbn [Pos.size_nat].
  - replace (N.of_nat (S (Pos.size_nat p))) with (N.succ (N.of_nat (Pos.size_nat p))) by lia.
    rewrite N.pow_succ_r'. lia.
  - replace (N.of_nat (S (Pos.size_nat p))) with (N.succ (N.of_nat (Pos.size_nat p))) by lia.
    rewrite N.pow_succ_r'. lia.
  - cbn. lia.
Qed.

Lemma fmt_nat_fuel_spec fuel : forall n acc,
  n < 2 ^ N.of_nat fuel -> 0 < n ->
  fold_left (fun a c => a * 10 + (c - 48)) (fmt_nat_fuel fuel n acc) 0 =
  n * 10 ^ N.of_nat (List.length acc) + fold_left (fun a c => a * 10 + (c - 48)) acc 0.
Proof.
  induction fuel as [|f IH]; intros n acc Hf Hn.
  - cbn in Hf. lia.
  - cbn [fmt_nat_fuel].
    assert (Hm : n mod 10 < 10) by (apply N.mod_lt; lia).
    assert (Hd : n = 10 * (n / 10) + n mod 10) by (apply N.div_mod'; lia).
    replace (N.of_nat (S f)) with (N.succ (N.of_nat f)) in Hf by lia. rewrite N.pow_succ_r' in Hf.
    destruct (n / 10 =? 0) eqn:E.
    + apply N.eqb_eq in E. rewrite E in Hd.
      cbn [fold_left]. unfold digit.
      rewrite (fold_dec_app acc (0 * 10 + (48 + n mod 10 - 48)) (List.length acc) eq_refl).
      replace (48 + n mod 10 - 48) with (n mod 10) by lia. lia.
    + apply N.eqb_neq in E.
      rewrite IH; [|lia|lia].
      cbn [List.length fold_left]. unfold digit.
      rewrite (fold_dec_app acc (0 * 10 + (48 + n mod 10 - 48)) (List.length acc) eq_refl).
      replace (48 + n mod 10 - 48) with (n mod 10) by lia.
      replace (N.of_nat (S (List.length acc))) with (N.succ (N.of_nat (List.length acc))) by lia.
      rewrite N.pow_succ_r'. nia.
Qed.

Lemma dec_value_fmt_nat n : digits_val (fmt_nat n) 0 = Some n.
Proof.
  rewrite digits_val_fold by apply fmt_nat_digits.
  destruct (N.eq_dec n 0) as [->|Hn]; [reflexivity|].
  unfold fmt_nat. rewrite fmt_nat_fuel_spec; [cbn; f_equal; lia| |lia].
  pose proof (size_nat_bound n).
  replace (N.of_nat (S (N.size_nat n))) with (N.succ (N.of_nat (N.size_nat n))) by lia.
  rewrite N.pow_succ_r'. lia.
Qed.
