(* Further lemmas about the reference evaluator (C01):
     - frame discipline: every evaluation that ends (in a value, a control signal or a language error) is back in
       the frame it started in; environments are never removed and never re-parented (the scope chain of a
       closure is immutable); closure ids only grow; printed text is append-only;
     - left-to-right evaluation of infix operands, and error short-circuit (an error in the left operand or in a
       statement ends the expression / block: nothing after it is evaluated). *)
From Coq Require Import List ZArith NArith Bool Lia.
From GrolGen Require Import Gen_Consts.
From GrolModel Require Import Ast RefValues RefEval.
Import ListNotations.
Open Scope Z_scope.

(* ================================================================== frame discipline *)
(* st' extends st: no environment removed, every existing environment keeps its parent and its function
   (only stores change), the closure counter did not decrease, the written chunks were only added to *)
Definition ext (st st' : state) : Prop :=
  (length (heap st) <= length (heap st'))%nat
  /\ (forall i e, nth_error (heap st) i = Some e ->
        exists e', nth_error (heap st') i = Some e' /\ eouter e' = eouter e /\ efun e' = efun e)
  /\ (nextfid st <= nextfid st')%nat
  /\ (exists l, out st' = l ++ out st).

Definition ended (o : outcome) : Prop := match o with OAbort _ => False | _ => True end.

Definition fr (m : M) : Prop :=
  forall st o st', m st = (o, st') -> ext st st' /\ (ended o -> cur st' = cur st).

Lemma ext_refl : forall st, ext st st.
Proof.
  intros st; unfold ext; repeat split; auto.
  - intros i e H; exists e; auto.
  - exists []; reflexivity.
Qed.

Lemma ext_trans : forall a b c, ext a b -> ext b c -> ext a c.
Proof.
  intros a b c [L1 [K1 [N1 [l1 O1]]]] [L2 [K2 [N2 [l2 O2]]]]; unfold ext; repeat split; try lia.
  - intros i e H. destruct (K1 i e H) as [e1 [H1 [A1 B1]]]. destruct (K2 i e1 H1) as [e2 [H2 [A2 B2]]].
    exists e2; repeat split; congruence.
  - exists (l2 ++ l1). rewrite O2, O1, app_assoc. reflexivity.
Qed.

Lemma fr_ret : forall o, fr (ret o).
Proof. intros o st o' st' H; unfold ret in H; inversion H; subst; split; auto using ext_refl. Qed.

Lemma fr_bindo : forall m k, fr m -> (forall o, fr (k o)) -> fr (bindo m k).
Proof.
  intros m k Hm Hk st o st' H. unfold bindo in H.
  destruct (m st) as [o1 s1] eqn:E1. destruct (Hm _ _ _ E1) as [X1 C1].
  destruct o1;
    try (destruct (Hk _ _ _ _ H) as [X2 C2]; split; [eapply ext_trans; eauto|intros G; rewrite (C2 G); apply C1; exact I]).
  inversion H; subst. split; [exact X1|intros G; destruct G].
Qed.

Lemma fr_bindx : forall m k, fr m -> (forall v, fr (k v)) -> fr (bindx m k).
Proof.
  intros m k Hm Hk; unfold bindx; apply fr_bindo; auto.
  intros o; destruct o; auto; apply fr_ret.
Qed.

Lemma fr_gets : forall (A : Type) (f : state -> A) k, (forall a, fr (k a)) -> fr (gets f k).
Proof. intros A f k Hk st o st' H; unfold gets in H; eapply Hk; eauto. Qed.

Lemma fr_modify : forall f k,
  (forall st, ext st (f st) /\ cur (f st) = cur st) -> fr k -> fr (modify f k).
Proof.
  intros f k Hf Hk st o st' H; unfold modify in H. destruct (Hk _ _ _ H) as [X C]. destruct (Hf st) as [Xf Cf].
  split; [eapply ext_trans; eauto|intros G; rewrite (C G); exact Cf].
Qed.

Lemma heap_set_len : forall h id e, length (heap_set h id e) = length h.
Proof. induction h; destruct id; simpl; auto. Qed.

Lemma heap_set_nth : forall h id e i,
  nth_error (heap_set h id e) i =
  if Nat.eqb i id then (match nth_error h i with Some _ => Some e | None => None end) else nth_error h i.
Proof.
  induction h as [|x h IH]; intros id e i.
  - destruct id; destruct i; simpl; try reflexivity; destruct (Nat.eqb i id); reflexivity.
  - destruct id; destruct i; simpl; auto.
Qed.

Lemma set_in_ok : forall st id n v, ext st (set_in st id n v) /\ cur (set_in st id n v) = cur st.
Proof.
  intros st id n v; unfold set_in. destruct (nth_error (heap st) id) as [e0|] eqn:E; [|split; auto using ext_refl].
  split; [|reflexivity]. unfold ext; simpl; repeat split; auto.
  - rewrite heap_set_len; lia.
  - intros i e H. rewrite heap_set_nth. destruct (Nat.eqb_spec i id).
    + subst. rewrite H. rewrite E in H. inversion H; subst. eexists; repeat split; reflexivity.
    + exists e; auto.
  - exists []; reflexivity.
Qed.

Lemma emit_ok : forall b st, ext st (emit b st) /\ cur (emit b st) = cur st.
Proof.
  intros b st; unfold emit; split; [|reflexivity]. unfold ext; simpl; repeat split; auto.
  - intros i e H; exists e; auto.
  - exists [b]; reflexivity.
Qed.

Lemma fr_create_or_set : forall n v c, fr (create_or_set n v c).
Proof.
  intros n v c st o st' H. unfold create_or_set in H.
  assert (D : forall o0 s0,
    (if c then modify (fun s => set_define s n v) (retv v)
     else gets (fun s => set_assign s n v)
            (fun o1 => match o1 with Some s1 => modify (fun _ => s1) (retv v) | None => unk end)) st = (o0, s0) ->
    ext st s0 /\ (ended o0 -> cur s0 = cur st)).
  { intros o0 s0 E. destruct c.
    - unfold modify, retv, ret in E; inversion E; subst. unfold set_define.
      destruct (set_in_ok st (cur st) n v); split; auto.
    - unfold gets, set_assign in E.
      destruct (find_env (S (length (heap st))) (heap st) (cur st) n);
        unfold modify, retv, unk, ret in E; inversion E; subst;
        try (match goal with |- ext _ (set_in ?s ?i ?a ?b) /\ _ => destruct (set_in_ok s i a b); split; auto end).
      split; [apply ext_refl|auto]. }
  destruct (is_constant n); [|apply D; exact H].
  unfold gets in H. destruct (get_var st n) as [old| |].
  - destruct (vequals old v) as [[|]|]; [apply D; exact H| |];
      unfold err, unk, ret in H; inversion H; subst; split; auto using ext_refl.
  - apply D; exact H.
  - unfold unk, ret in H; inversion H; subst; split; auto using ext_refl.
Qed.

Lemma fr_set_ignore : forall n v, fr (set_ignore n v).
Proof. intros; unfold set_ignore; apply fr_bindo; [apply fr_create_or_set|intros; apply fr_ret]. Qed.

Ltac fr_step :=
  match goal with
  | |- fr (ret _) => apply fr_ret
  | |- fr unk => apply fr_ret
  | |- fr err => apply fr_ret
  | |- fr (retv _) => apply fr_ret
  | |- fr (create_or_set _ _ _) => apply fr_create_or_set
  | |- fr (set_ignore _ _) => apply fr_set_ignore
  | |- fr (bindx _ _) => apply fr_bindx; [ | intros ]
  | |- fr (bindo _ _) => apply fr_bindo; [ | intros ]
  | |- fr (gets _ _) => apply fr_gets; intros
  | |- fr (modify (emit _) _) => apply fr_modify; [intros; apply emit_ok | ]
  | |- fr (match ?x with _ => _ end) => destruct x
  | |- fr (let _ := _ in _) => cbv zeta
  end.

Section Frame.
  Variable ev : task -> M.
  Hypothesis Hev : forall t, fr (ev t).

  Ltac frs := repeat (first [ fr_step | apply Hev ]).

  Lemma fr_evalI : forall n, fr (evalI ev n).
  Proof. intros [n|]; simpl; frs. Qed.

  Lemma fr_evalE : forall n, fr (evalE ev n).
  Proof. intros [n|]; unfold evalE; frs. Qed.

  Lemma fr_eval_list : forall l, fr (eval_list ev l).
  Proof.
    induction l as [|n r IH]; simpl; [apply fr_ret|].
    apply fr_bindx; [apply fr_evalI|]. intros v. apply fr_bindx; [exact IH|]. intros vs. frs.
  Qed.

  Lemma fr_eval_stmts : forall l last, fr (eval_stmts ev l last).
  Proof.
    induction l as [|n r IH]; intros last; simpl; [apply fr_ret|].
    destruct n as [n|]; [|apply fr_ret].
    destruct n; try apply IH; (apply fr_bindo; [apply Hev|]; intros o; destruct o; auto using fr_ret).
  Qed.

  Lemma fr_print_args : forall l first acc, fr (print_args ev l first acc).
  Proof.
    induction l as [|n r IH]; intros first acc; simpl; [apply fr_ret|].
    apply fr_bindx; [apply fr_evalI|]. intros v. destruct (display v); [apply IH|apply fr_ret].
  Qed.

  Lemma fr_map_pairs : forall l acc, fr (map_pairs ev l acc).
  Proof.
    induction l as [|[k v] r IH]; intros acc; simpl; [apply fr_ret|].
    apply fr_bindx; [apply fr_evalE|]. intros kv. apply fr_bindx; [apply fr_evalE|]. intros vv.
    destruct (is_opaque kv); [apply fr_ret|]. destruct (mset acc kv vv); [apply IH|apply fr_ret].
  Qed.

  Lemma fr_bind_params : forall ps vs, fr (bind_params ps vs).
  Proof.
    induction ps as [|p ps IH]; intros vs; destruct vs as [|v vs]; simpl; try apply fr_ret.
    apply fr_bindx; [apply fr_create_or_set|]. intros _. apply IH.
  Qed.

  Lemma fr_for_list : forall name items b last, fr (for_list ev name items b last).
  Proof.
    induction items as [|x r IH]; intros b last; simpl; [apply fr_ret|].
    apply fr_bindo; [apply fr_set_ignore|]. intros _.
    apply fr_bindo; [apply Hev|]. intros o. destruct o; try apply IH; apply fr_ret.
  Qed.

  (* a call pushes a frame, runs the body there, and is back in the caller's frame whatever the body ended in *)
  Lemma fr_call_fun : forall f args, fr (call_fun ev f args).
  Proof.
    intros f args; unfold call_fun. destruct f; try apply fr_ret. cbv zeta.
    match goal with |- fr (if ?c then _ else _) => destruct c end; [apply fr_ret|].
    intros st o st' H. unfold gets, modify in H. cbv beta in H. simpl fst in H. simpl snd in H.
    set (parent := match nth_error (heap st) (cur st) with
                   | Some e => match efun e with
                               | Some (VFun fid' _ _ _ _ _) => if Nat.eqb fid' fid then cur st else env
                               | _ => env
                               end
                   | None => env
                   end) in H.
    set (s0 := mkState (heap st ++ [mkEnv [] (Some parent) (Some (VFun fid name params variadic body env))])
                       (length (heap st)) (out st) (nextfid st)) in H.
    assert (X0 : ext st s0).
    { unfold ext, s0; simpl; repeat split; auto.
      - rewrite app_length; simpl; lia.
      - intros i e Hi; exists e; split; auto. rewrite nth_error_app1; auto. apply nth_error_Some; congruence.
      - exists []; reflexivity. }
    unfold bindo in H.
    match type of H with context[bind_params ?pa ?pb s0] =>
      destruct (bind_params pa pb s0) as [o1 s1] eqn:E1 end.
    destruct (fr_bind_params _ _ _ _ _ E1) as [X1 _].
    assert (Fin : forall (o' : outcome) (s : state), ext st s ->
              ext st (set_cur (cur st) s) /\ (ended o' -> cur (set_cur (cur st) s) = cur st)).
    { intros o' s [A [B [C D]]]; split; [unfold ext, set_cur; simpl; auto|reflexivity]. }
    destruct o1; cbv beta iota in H.
    - (* parameters bound: run the body *)
      unfold modify in H.
      match type of H with context[ev (TNode body) ?sx] => set (s2 := sx) in H end.
      assert (X2 : ext s1 s2).
      { unfold s2. destruct variadic; [unfold set_define; apply set_in_ok|apply ext_refl]. }
      destruct (ev (TNode body) s2) as [o2 s3] eqn:E2.
      destruct (Hev _ _ _ _ E2) as [X3 _].
      assert (X : ext st s3) by (eapply ext_trans; [exact X0|eapply ext_trans; [exact X1|eapply ext_trans; eauto]]).
      destruct o2; cbv beta iota in H; unfold ret in H; inversion H; subst; try (apply Fin; exact X).
      split; [exact X|intros G; destruct G].
    - unfold modify, ret in H; inversion H; subst. apply Fin. eapply ext_trans; eauto.
    - unfold modify, ret in H; inversion H; subst. apply Fin. eapply ext_trans; eauto.
    - unfold modify, ret in H; inversion H; subst. apply Fin. eapply ext_trans; eauto.
    - unfold modify, ret in H; inversion H; subst. apply Fin. eapply ext_trans; eauto.
    - inversion H; subst. split; [eapply ext_trans; eauto|intros G; destruct G].
  Qed.

  Lemma fr_incdec : forall name delta post, fr (incdec name delta post).
  Proof. intros; unfold incdec; frs. Qed.

  Lemma fr_index_assign : forall w i v, fr (index_assign w i v).
  Proof. intros; unfold index_assign; frs. Qed.

  Lemma fr_assign : forall t lhs right, fr (assign ev t lhs right).
  Proof.
    intros; unfold assign.
    repeat first [ apply fr_index_assign | apply fr_evalE | fr_step ].
  Qed.

  Lemma fr_del_entry : forall lhs i, fr (del_entry lhs i).
  Proof. intros; unfold del_entry; frs. Qed.

  Lemma fr_eval_builtin : forall t ps, fr (eval_builtin ev t ps).
  Proof.
    intros; unfold eval_builtin; cbv zeta.
    repeat first [ apply fr_print_args | apply fr_del_entry | apply fr_evalE | apply fr_evalI | fr_step ].
  Qed.

  Lemma fr_for_int : forall name a b body, fr (for_int ev name a b body).
  Proof. intros; unfold for_int; frs. Qed.

  Lemma fr_eval_for : forall c b, fr (eval_for ev c b).
  Proof.
    intros; unfold eval_for.
    repeat first [ apply fr_for_int | apply fr_for_list | apply fr_evalI | apply Hev | fr_step ].
  Qed.

  Lemma fr_branch : forall b, fr (branch ev b).
  Proof. intros [n|]; simpl; frs. Qed.

  Lemma fr_eval_node : forall n, fr (eval_node ev n).
  Proof.
    intros n; destruct n; simpl.
    all: repeat first
      [ apply fr_eval_stmts | apply fr_incdec | apply fr_assign | apply fr_eval_for | apply fr_branch
      | apply fr_eval_builtin | apply fr_eval_list | apply fr_call_fun | apply fr_map_pairs
      | apply fr_evalE | apply fr_evalI | apply Hev
      | match goal with
        | |- fr (modify (fun st => mkState (heap st) (cur st) (out st) (S (nextfid st))) _) =>
            apply fr_modify;
            [intros s; split; [|reflexivity]; unfold ext; simpl; repeat split; auto;
             [intros i e Hi; exists e; auto|exists []; reflexivity]|]
        end
      | fr_step ].
  Qed.

  Lemma fr_step_all : forall t, fr (step ev t).
  Proof.
    intros t; destruct t; simpl.
    - apply fr_eval_node.
    - repeat first [ apply fr_for_int | apply Hev | fr_step ].
    - repeat first [ apply Hev | fr_step ].
  Qed.
End Frame.

Lemma fr_run : forall f t, fr (run f t).
Proof.
  induction f as [|f IH]; intros t; simpl; [apply fr_ret|]. apply fr_step_all. exact IH.
Qed.

(* the printed text only grows *)
Lemma printed_ext : forall st st', ext st st' -> exists more, printed st' = printed st ++ more.
Proof.
  intros st st' [_ [_ [_ [l Hl]]]]. unfold printed. rewrite Hl, rev_app_distr, concat_app. eauto.
Qed.

Theorem frame_discipline : forall (n : nat) (t : task) (st st' : state) (o : outcome),
  run n t st = (o, st') ->
  (ended o -> cur st' = cur st)
  /\ (length (heap st) <= length (heap st'))%nat
  /\ (forall i e, nth_error (heap st) i = Some e ->
        exists e', nth_error (heap st') i = Some e' /\ eouter e' = eouter e /\ efun e' = efun e)
  /\ (nextfid st <= nextfid st')%nat
  /\ (exists more, printed st' = printed st ++ more).
Proof.
  intros n t st st' o H. destruct (fr_run n t st o st' H) as [X C].
  pose proof (printed_ext _ _ X) as P. destruct X as [A [B [D _]]]. repeat split; auto.
Qed.

(* ================================================================== evaluation order *)
(* an operator that is neither an assignment nor decided by its left operand alone (&&, ||, the pipe form) *)
Definition plain_infix (t : tok) (lv : value) (r : node) : bool :=
  negb (tk t token_ASSIGN || tk t token_DEFINE)
  && negb (tk t token_AND && (match lv with VBool false => true | _ => false end))
  && negb (tk t token_OR && is_true lv)
  && negb (tk t token_BITOR && (match lv with VStr _ => true | _ => false end)
           && (match node_tok r with Some rt => tk rt token_LPAREN | None => false end)).

(* left to right: the right operand is evaluated in the state the left operand left, then the operator is applied
   to the two VALUES (the left value is the one the left operand had, whatever the right operand did since) *)
Theorem infix_left_to_right : forall (f : nat) (t : tok) (l r : node) (st s1 s2 : state) (a b : value),
  run f (TNode l) st = (OVal a, s1) ->
  run f (TNode r) s1 = (OVal b, s2) ->
  plain_infix t a r = true ->
  run (S f) (TNode (NInfix t (Some l) (Some r))) st = (infix_op (ttype t) a b, s2).
Proof.
  intros f t l r st s1 s2 a b Hl Hr Hp. unfold plain_infix in Hp.
  repeat (apply andb_true_iff in Hp; destruct Hp as [Hp ?]).
  repeat match goal with H : negb _ = true |- _ => apply negb_true_iff in H end.
  simpl. rewrite Hp. unfold bindx, bindo, evalE, bindo. rewrite Hl. simpl.
  match goal with H : _ = false |- _ => rewrite H end.
  match goal with H : _ = false |- _ => rewrite H end.
  match goal with H : _ = false |- _ => rewrite H end.
  rewrite Hr. reflexivity.
Qed.

(* an error (or abort) in the left operand is the result; the right operand is not evaluated *)
Theorem infix_left_error : forall (f : nat) (t : tok) (l r : node) (st s1 : state) (e : option bytes),
  run f (TNode l) st = (OErr e, s1) ->
  (tk t token_ASSIGN || tk t token_DEFINE) = false ->
  run (S f) (TNode (NInfix t (Some l) (Some r))) st = (OErr e, s1).
Proof.
  intros f t l r st s1 e Hl Ht. simpl. rewrite Ht. unfold bindx, bindo, evalE, bindo. rewrite Hl. reflexivity.
Qed.

(* an error in the right operand is the result, in the state both operands produced *)
Theorem infix_right_error : forall (f : nat) (t : tok) (l r : node) (st s1 s2 : state) (a : value) (e : option bytes),
  run f (TNode l) st = (OVal a, s1) ->
  run f (TNode r) s1 = (OErr e, s2) ->
  plain_infix t a r = true ->
  run (S f) (TNode (NInfix t (Some l) (Some r))) st = (OErr e, s2).
Proof.
  intros f t l r st s1 s2 a e Hl Hr Hp. unfold plain_infix in Hp.
  repeat (apply andb_true_iff in Hp; destruct Hp as [Hp ?]).
  repeat match goal with H : negb _ = true |- _ => apply negb_true_iff in H end.
  simpl. rewrite Hp. unfold bindx, bindo, evalE, bindo. rewrite Hl. simpl.
  match goal with H : _ = false |- _ => rewrite H end.
  match goal with H : _ = false |- _ => rewrite H end.
  match goal with H : _ = false |- _ => rewrite H end.
  rewrite Hr. reflexivity.
Qed.

(* statements run in order; the first one that does not end in a plain value (error, return, break, continue)
   ends the block: the statements after it are not evaluated *)
Definition is_comment (n : node) : bool := match n with NComment _ _ _ => true | _ => false end.

Theorem stmts_stop_at_first_non_value : forall (f : nat) (n : node) (rest : list (option node))
    (last : value) (st st' : state) (o : outcome),
  is_comment n = false ->
  run f (TNode n) st = (o, st') ->
  (forall v, o <> OVal v) ->
  eval_stmts (run f) (Some n :: rest) last st = (o, st').
Proof.
  intros f n rest last st st' o Hc Hn Ho.
  destruct n; simpl in Hc; try discriminate; simpl; unfold bindo; rewrite Hn;
    destruct o; try reflexivity; exfalso; eapply Ho; reflexivity.
Qed.

Theorem stmts_continue_after_value : forall (f : nat) (n : node) (rest : list (option node))
    (last v : value) (st st' : state),
  is_comment n = false ->
  run f (TNode n) st = (OVal v, st') ->
  eval_stmts (run f) (Some n :: rest) last st = eval_stmts (run f) rest v st'.
Proof.
  intros f n rest last v st st' Hc Hn.
  destruct n; simpl in Hc; try discriminate; simpl; unfold bindo; rewrite Hn; reflexivity.
Qed.

(* ================================================================== loop control *)
(* what a loop does with the outcome of one execution of its body: a value becomes the loop's current result and
   the loop goes on, continue goes on with the result unchanged, break ends the loop with the result so far,
   return / error / abort leave the loop as they are *)
Definition after_body (o : outcome) (last : value) (next : value -> M) : M :=
  match o with
  | OVal x => next x
  | OCont => next last
  | OBrk => retv last
  | _ => ret o
  end.

Lemma bindo_after_body : forall (m : M) (st s2 : state) (ob : outcome) (last : value) (next : value -> M),
  m st = (ob, s2) ->
  bindo m (fun o => match o with
                    | OVal v => next v
                    | OCont => next last
                    | OBrk => retv last
                    | _ => ret o
                    end) st = after_body ob last next s2.
Proof. intros m st s2 ob last next H; unfold bindo; rewrite H; destruct ob; reflexivity. Qed.

(* for cond {body} *)
Theorem while_iteration : forall (f : nat) (c b : node) (last : value) (st s1 s2 : state) (ob : outcome),
  run f (TNode c) st = (OVal (VBool true), s1) ->
  run f (TNode b) s1 = (ob, s2) ->
  run (S f) (TWhile c b last) st = after_body ob last (fun x => run f (TWhile c b x)) s2.
Proof.
  intros f c b last st s1 s2 ob Hc Hb. simpl. unfold bindx at 1. unfold bindo at 1. rewrite Hc.
  apply bindo_after_body. exact Hb.
Qed.

Theorem while_exit : forall (f : nat) (c b : node) (last v : value) (st s1 : state),
  run f (TNode c) st = (OVal v, s1) -> v = VBool false \/ v = VNil ->
  run (S f) (TWhile c b last) st = (OVal last, s1).
Proof.
  intros f c b last v st s1 Hc Hv. simpl. unfold bindx, bindo. rewrite Hc. destruct Hv; subst; reflexivity.
Qed.

(* for n {body}, for i = n {body}, for i = a:b {body} *)
Theorem forint_iteration : forall (f : nat) (name : option bytes) (i stop : Z) (b : node) (last : value)
    (st s1 s2 : state) (ob : outcome),
  i < stop ->
  (match name with Some x => set_ignore x (VInt i) | None => retv VNil end) st = (OVal VNil, s1) ->
  run f (TNode b) s1 = (ob, s2) ->
  run (S f) (TForInt name i stop b last) st
  = after_body ob last (fun x => run f (TForInt name (i + 1) stop b x)) s2.
Proof.
  intros f name i stop b last st s1 s2 ob Hlt Hset Hb. simpl.
  destruct (Z.leb_spec stop i); [lia|]. unfold bindo at 1. rewrite Hset.
  apply bindo_after_body. exact Hb.
Qed.

Theorem forint_exit : forall (f : nat) (name : option bytes) (i stop : Z) (b : node) (last : value) (st : state),
  stop <= i -> run (S f) (TForInt name i stop b last) st = (OVal last, st).
Proof. intros f name i stop b last st H. simpl. destruct (Z.leb_spec stop i); [reflexivity|lia]. Qed.

(* for x = array / map / string {body} *)
Theorem forlist_iteration : forall (ev : task -> M) (name : bytes) (x : value) (r : list value) (b : node)
    (last : value) (st s1 s2 : state) (ob : outcome),
  set_ignore name x st = (OVal VNil, s1) ->
  ev (TNode b) s1 = (ob, s2) ->
  for_list ev name (x :: r) b last st = after_body ob last (fun v => for_list ev name r b v) s2.
Proof.
  intros ev name x r b last st s1 s2 ob Hset Hb. simpl. unfold bindo at 1. rewrite Hset.
  apply bindo_after_body. exact Hb.
Qed.

Theorem forlist_exit : forall (ev : task -> M) (name : bytes) (b : node) (last : value) (st : state),
  for_list ev name [] b last st = (OVal last, st).
Proof. reflexivity. Qed.

(* the loop variable is bound (through =) before every iteration, or the attempt is an abort: never a signal *)
Lemma set_ignore_outcome : forall n v st o st', set_ignore n v st = (o, st') -> o = OVal VNil \/ exists a, o = OAbort a.
Proof.
  intros n v st o st' H. unfold set_ignore, bindo in H.
  destruct (create_or_set n v false st) as [o1 s1]. destruct o1; inversion H; subst; eauto.
Qed.

(* ================================================================== function boundary *)
Definition is_signal (o : outcome) : Prop :=
  match o with ORet _ | OBrk | OCont => True | _ => False end.

Lemma create_or_set_no_signal : forall n v c st o st', create_or_set n v c st = (o, st') -> ~ is_signal o.
Proof.
  intros n v c st o st' H. unfold create_or_set in H.
  assert (D : forall o0 s0,
    (if c then modify (fun s => set_define s n v) (retv v)
     else gets (fun s => set_assign s n v)
            (fun o1 => match o1 with Some s1 => modify (fun _ => s1) (retv v) | None => unk end)) st = (o0, s0) ->
    ~ is_signal o0).
  { intros o0 s0 E. destruct c.
    - unfold modify, retv, ret in E; inversion E; subst; simpl; auto.
    - unfold gets in E. destruct (set_assign st n v); unfold modify, retv, unk, ret in E; inversion E; subst; simpl; auto. }
  destruct (is_constant n); [|eapply D; eauto].
  unfold gets in H. destruct (get_var st n) as [old| |].
  - destruct (vequals old v) as [[|]|]; [eapply D; eauto| |];
      unfold err, unk, ret in H; inversion H; subst; simpl; auto.
  - eapply D; eauto.
  - unfold unk, ret in H; inversion H; subst; simpl; auto.
Qed.

Lemma bind_params_no_signal : forall ps vs st o st', bind_params ps vs st = (o, st') -> ~ is_signal o.
Proof.
  induction ps as [|p ps IH]; intros vs st o st' H; destruct vs as [|v vs]; simpl in H;
    try (unfold retv, err, ret in H; inversion H; subst; simpl; auto; fail).
  unfold bindx, bindo in H. destruct (create_or_set p v true st) as [o1 s1] eqn:E.
  pose proof (create_or_set_no_signal _ _ _ _ _ _ E) as N.
  destruct o1; try (unfold ret, unk in H; inversion H; subst; simpl; auto; fail);
    try (exfalso; apply N; exact I).
  eapply IH; eauto.
Qed.

(* return, break and continue never cross a function boundary: whatever the evaluator of the body does, the outcome
   of a call is a value, a language error or an abort (a return signal is unwrapped into its value, a stray
   break / continue becomes an error) *)
Theorem call_never_signals : forall (ev : task -> M) (fn : value) (args : list value) (st st' : state) (o : outcome),
  call_fun ev fn args st = (o, st') -> ~ is_signal o.
Proof.
  intros ev fn args st st' o H. unfold call_fun in H.
  destruct fn; try (unfold err, ret in H; inversion H; subst; simpl; auto; fail).
  cbv zeta in H.
  match type of H with (if ?c then _ else _) _ = _ => destruct c end;
    [unfold err, ret in H; inversion H; subst; simpl; auto|].
  unfold gets, modify in H. cbv beta in H.
  unfold bindo at 1 in H.
  match type of H with context[bind_params ?pa ?pb ?s0] =>
    destruct (bind_params pa pb s0) as [o1 s1] eqn:E1 end.
  pose proof (bind_params_no_signal _ _ _ _ _ E1) as N1.
  destruct o1; cbv beta iota in H;
    try (exfalso; apply N1; exact I);
    try (unfold modify, ret in H; inversion H; subst; simpl; auto; fail).
  unfold modify, bindo in H.
  match type of H with context[ev (TNode body) ?sx] => destruct (ev (TNode body) sx) as [o2 s3] end.
  destruct o2; cbv beta iota in H; unfold ret in H; inversion H; subst; simpl; auto.
Qed.

(* a whole program that ends is back in the root environment *)
Theorem program_ends_at_root : forall (n : nat) (p : node) (o : outcome) (st : state),
  eval_program n p = (o, st) -> ended o -> cur st = 0%nat /\ (length (heap st) >= 1)%nat.
Proof.
  intros n p o st H G. unfold eval_program in H.
  destruct (run n (TNode p) init_state) as [o1 s1] eqn:E. inversion H; subst.
  destruct (frame_discipline _ _ _ _ _ E) as [C [L _]].
  assert (G1 : ended o1) by (destruct o1; simpl in G; auto).
  rewrite (C G1). simpl in L. split; [reflexivity|exact L].
Qed.
