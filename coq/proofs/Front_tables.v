(* Computed side conditions on the GENERATED tables (re-checked whenever /repo changes them). *)
From Coq Require Import List ZArith Bool String.
From GrolGen Require Import Gen_Consts Gen_Prec Gen_ParserTables Gen_Token.
From GrolModel Require Import Ast Parser.
Import ListNotations.
Local Open Scope string_scope.
Local Open Scope Z_scope.

Definition known_prefix : list string :=
  ["parseIdentifier"; "parseIntegerLiteral"; "parseFloatLiteral"; "parseBoolean"; "parseStringLiteral";
   "parseControlExpression"; "parseComment"; "parsePrefixExpression"; "parseGroupedExpression";
   "parseIfExpression"; "parseForExpression"; "parseFunctionLiteral"; "parseMacroLiteral"; "parseBuiltin";
   "parseArrayLiteral"; "parseMapLiteral"].
Definition known_infix : list string :=
  ["parseInfixExpression"; "parseCallExpression"; "parseIndexExpression"; "parseLambdaExpression"].

Definition str_in (l : list string) (s : string) : bool := existsb (String.eqb s) l.

(* every registered parse function is one the parser model implements *)
Definition tables_known : bool :=
  forallb (fun e => str_in known_prefix (snd e)) prefix_fns
  && forallb (fun e => str_in known_infix (snd e)) infix_fns
  && forallb (fun e => String.eqb (snd e) "parsePostfixExpression") postfix_fns.

Lemma tables_known_ok : tables_known = true.
Proof. vm_compute. reflexivity. Qed.

(* every token that can become the token of an Infix / Postfix / Index node has a precedence entry
   (PrintState.needParen panics otherwise) *)
Definition has_prec (t : Z) : bool :=
  match table_get precedences t with Some _ => true | None => false end.

Definition printer_tokens_have_prec : bool :=
  forallb (fun e => has_prec (fst e)) postfix_fns
  && forallb (fun e => negb (String.eqb (snd e) "parseInfixExpression" || String.eqb (snd e) "parseIndexExpression")
                       || has_prec (fst e)) infix_fns.

Lemma printer_tokens_have_prec_ok : printer_tokens_have_prec = true.
Proof. vm_compute. reflexivity. Qed.

(* the Pratt loop only dispatches on tokens whose precedence is above LOWEST; PREFIX binds tighter than
   every binary level and CALL / INDEX / DOTINDEX bind tighter than PREFIX *)
Definition prec_table_wf : bool :=
  forallb (fun e => ast_LOWEST <? snd e) precedences
  && forallb (fun e => (snd e <=? ast_PREFIX) || (Z.eqb (snd e) ast_CALL) || (Z.eqb (snd e) ast_INDEX) || (Z.eqb (snd e) ast_DOTINDEX)) precedences
  && (ast_PREFIX <? ast_CALL) && (ast_CALL <? ast_INDEX) && (ast_INDEX <? ast_DOTINDEX).

Lemma prec_table_wf_ok : prec_table_wf = true.
Proof. vm_compute. reflexivity. Qed.
