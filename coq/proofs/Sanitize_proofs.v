(* Lemmas about coq/model/Sanitize.v (C17).  The audit of the generated IO-site inventory is in IOSites_audit.v. *)
From Coq Require Import List PeanoNat NArith Bool Lia.
From GrolGen Require Import Gen_IOSites.
From GrolModel Require Import Sanitize.
Import ListNotations.
Local Open Scope N_scope.

(* ------------------------------------------------------------------ specification vocabulary *)
Definition alnum (x : byte) : Prop := is_alnum x = true.

(* b ++ ".gr" with b made of letters, digits and underscores only *)
Definition plain (n : str) : Prop := exists b, n = b ++ dot_gr /\ Forall alnum b.

(* what a program may touch when IO is restricted *)
Definition allowed (c : config) (n : str) : Prop :=
  n = grol_png \/ (if empty_only c then n = dot_gr else plain n).

Definition file_access (a : access) (n : str) : Prop := a = ACreate n \/ a = AOpen n.

(* ------------------------------------------------------------------ translator obligations *)
Lemma suffix_is_dot_gr : grol_file_extension = dot_gr.
Proof. vm_compute. reflexivity. Qed.

Lemma autosave_file_is_dot_gr : repl_autosave_file = dot_gr.
Proof. vm_compute. reflexivity. Qed.


(* ------------------------------------------------------------------ strings *)
Lemma str_eqb_true : forall a b, str_eqb a b = true <-> a = b.
Proof.
  intros a b. unfold str_eqb. destruct (list_eq_dec N.eq_dec a b); split; intro H; congruence.
Qed.

Lemma str_eqb_false : forall a b, str_eqb a b = false <-> a <> b.
Proof.
  intros a b. unfold str_eqb. destruct (list_eq_dec N.eq_dec a b); split; intro H; congruence.
Qed.

Lemma has_suffix_split : forall s suf, has_suffix s suf = true ->
  s = firstn (length s - length suf) s ++ suf.
Proof.
  intros s suf H. unfold has_suffix in H. apply andb_true_iff in H. destruct H as [_ H].
  apply str_eqb_true in H. rewrite <- H at 2. symmetry. apply firstn_skipn.
Qed.

Lemma has_suffix_app : forall b suf, has_suffix (b ++ suf) suf = true.
Proof.
  intros b suf. unfold has_suffix. rewrite app_length. apply andb_true_iff. split.
  - apply Nat.leb_le. lia.
  - apply str_eqb_true. replace (length b + length suf - length suf)%nat with (length b) by lia.
    rewrite skipn_app, skipn_all, Nat.sub_diag. reflexivity.
Qed.

Lemma trim_suffix_app : forall b suf, trim_suffix (b ++ suf) suf = b.
Proof.
  intros b suf. unfold trim_suffix. rewrite has_suffix_app, app_length.
  replace (length b + length suf - length suf)%nat with (length b) by lia.
  rewrite firstn_app, firstn_all, Nat.sub_diag. simpl. apply app_nil_r.
Qed.

(* the character class, spelled out *)
Lemma is_alnum_spec : forall x, is_alnum x = true <->
  (48 <= x <= 57) \/ (65 <= x <= 90) \/ (97 <= x <= 122) \/ x = 95.
Proof.
  intro x. unfold is_alnum, is_letter, is_digit.
  rewrite !orb_true_iff, !andb_true_iff, !N.leb_le, N.eqb_eq. lia.
Qed.

(* none of the characters that give a name a meaning beyond "entry of the current directory" *)
Lemma alnum_not_special : forall x, alnum x ->
  x <> 47 /\ x <> 92 /\ x <> 46 /\ x <> 0 /\ x <> 32 /\ x <> 126 /\ x < 128.
Proof. intros x H. apply is_alnum_spec in H. lia. Qed.

Lemma plainb_spec : forall n, plainb n = true <-> plain n.
Proof.
  intro n. unfold plainb, plain. split.
  - intro H. apply andb_true_iff in H. destruct H as [H1 H2].
    exists (firstn (length n - 3) n). split.
    + apply has_suffix_split in H1. exact H1.
    + apply Forall_forall. intros x Hx. apply (proj1 (forallb_forall _ _) H2 x Hx).
  - intros [b [-> Hb]]. apply andb_true_iff. split.
    + apply has_suffix_app.
    + rewrite app_length. replace (length b + length dot_gr - 3)%nat with (length b) by (simpl; lia).
      rewrite firstn_app, firstn_all, Nat.sub_diag. simpl. rewrite app_nil_r.
      apply forallb_forall. intros x Hx. apply (proj1 (Forall_forall _ _) Hb x Hx).
Qed.

(* ------------------------------------------------------------------ the sanitiser *)
Lemma sanitize_plain : forall c arg f,
  restricted c -> sanitize c arg = Some f ->
  exists b, f = b ++ dot_gr /\ Forall alnum b.
Proof.
  intros c arg f Hr H. unfold restricted in Hr. unfold sanitize in H.
  destruct arg as [file|].
  - destruct (empty_only c && negb (is_empty file)); [discriminate|].
    rewrite Hr in H.
    destruct (forallb is_alnum (trim_suffix file suffix)) eqn:E; [|discriminate].
    inversion H; subst. exists (trim_suffix file suffix). split.
    + unfold suffix. rewrite suffix_is_dot_gr. reflexivity.
    + apply Forall_forall. intros x Hx. exact (proj1 (forallb_forall _ _) E x Hx).
  - inversion H; subst. exists []. split; [|constructor].
    unfold suffix. rewrite suffix_is_dot_gr. reflexivity.
Qed.

(* every accepted name is free of separators, dots (other than the final .gr), NUL, space, tilde, non-ASCII *)
Lemma sanitize_plain_chars : forall c arg f,
  restricted c -> sanitize c arg = Some f ->
  exists b, f = b ++ dot_gr /\
    forall x, In x b -> x <> 47 /\ x <> 92 /\ x <> 46 /\ x <> 0 /\ x <> 32 /\ x <> 126 /\ x < 128.
Proof.
  intros c arg f Hr H. destruct (sanitize_plain c arg f Hr H) as [b [E Hb]].
  exists b. split; [exact E|]. intros x Hx. apply alnum_not_special.
  exact (proj1 (Forall_forall _ _) Hb x Hx).
Qed.

(* completeness: exactly the names  b  and  b.gr  with b plain are accepted (restricted, not empty-only) *)
Lemma sanitize_accepts : forall c b,
  restricted c -> empty_only c = false -> Forall alnum b ->
  sanitize c (Some (b ++ dot_gr)) = Some (b ++ dot_gr) /\ sanitize c (Some b) = Some (b ++ dot_gr).
Proof.
  intros c b Hr He Hb. unfold restricted in Hr. unfold sanitize. rewrite He, Hr. simpl.
  assert (Hf : forallb is_alnum b = true).
  { apply forallb_forall. intros x Hx. exact (proj1 (Forall_forall _ _) Hb x Hx). }
  unfold suffix. rewrite suffix_is_dot_gr. split.
  - rewrite trim_suffix_app, Hf. reflexivity.
  - assert (Hn : has_suffix b dot_gr = false).
    { destruct (has_suffix b dot_gr) eqn:E; [|reflexivity]. exfalso.
      apply has_suffix_split in E.
      assert (Hin : In 46 b). { rewrite E. apply in_or_app. right. simpl. auto. }
      pose proof (proj1 (Forall_forall _ _) Hb 46 Hin) as H46. vm_compute in H46. discriminate. }
    unfold trim_suffix. rewrite Hn, Hf. reflexivity.
Qed.

Lemma sanitize_empty_only_any_io : forall c arg f,
  empty_only c = true -> sanitize c arg = Some f ->
  f = dot_gr \/ (unrestricted c = true /\ arg = Some [] /\ f = []).
Proof.
  intros c arg f He H. unfold sanitize in H. rewrite He in H.
  destruct arg as [file|].
  - destruct file as [|x file]; simpl in H; [|discriminate].
    destruct (unrestricted c) eqn:U.
    + inversion H; subst. right. auto.
    + left. vm_compute in H. inversion H. reflexivity.
  - left. inversion H. unfold suffix. apply suffix_is_dot_gr.
Qed.

Lemma sanitize_empty_only : forall c arg f,
  restricted c -> empty_only c = true -> sanitize c arg = Some f -> f = dot_gr.
Proof.
  intros c arg f Hr He H. unfold restricted in Hr.
  destruct (sanitize_empty_only_any_io c arg f He H) as [E|[U _]]; [exact E|congruence].
Qed.

Lemma sanitize_allowed : forall c arg f,
  restricted c -> sanitize c arg = Some f -> allowed c f.
Proof.
  intros c arg f Hr H. right. destruct (empty_only c) eqn:E.
  - exact (sanitize_empty_only c arg f Hr E H).
  - exact (sanitize_plain c arg f Hr H).
Qed.

(* the outcome of the sanitiser depends on the two IO flags and the name only *)
Lemma sanitize_config_irrelevance : forall c1 c2 arg,
  empty_only c1 = empty_only c2 -> unrestricted c1 = unrestricted c2 -> sanitize c1 arg = sanitize c2 arg.
Proof. intros c1 c2 arg H1 H2. unfold sanitize. rewrite H1, H2. reflexivity. Qed.

(* ... and the name a save/load request is resolved to depends on nothing else: not on the file system,
   not on what happened before, not on the data, not on whether the OS call then succeeds *)
Lemma accepted_name_function_of_name : forall c arg ok1 ok2 (st1 st2 : state) d1 d2,
  accepted_name (snd (step c ok1 st1 (RSave arg d1))) = accepted_name (snd (step c ok2 st2 (RSave arg d2)))
  /\ accepted_name (snd (step c ok1 st1 (RLoad arg))) = accepted_name (snd (step c ok2 st2 (RLoad arg)))
  /\ (is_registered c FSave = true -> accepted_name (snd (step c ok1 st1 (RSave arg d1))) = sanitize c arg)
  /\ (is_registered c FLoad = true -> accepted_name (snd (step c ok1 st1 (RLoad arg))) = sanitize c arg).
Proof.
  intros c arg ok1 ok2 [f1 l1] [f2 l2] d1 d2. unfold step.
  destruct (is_registered c FSave), (is_registered c FLoad);
    destruct (sanitize c arg) as [n|]; simpl;
    try destruct (ok1 n); try destruct (ok2 n);
    try destruct (fs_get f1 n); try destruct (fs_get f2 n); simpl;
    repeat split; intros; try reflexivity; try discriminate.
Qed.

(* ------------------------------------------------------------------ rejected requests *)
Lemma rejected_no_effect : forall c arg,
  sanitize c arg = None ->
  forall ok (st : state) d,
    fst (step c ok st (RSave arg d)) = st /\ fst (step c ok st (RLoad arg)) = st.
Proof.
  intros c arg H ok [f lg] d. unfold step. rewrite H.
  destruct (is_registered c FSave), (is_registered c FLoad); split; reflexivity.
Qed.

(* ------------------------------------------------------------------ registration *)
Lemma no_exec_when_restricted : forall c,
  restricted c -> ~ In FExec (registered c) /\ ~ In FRun (registered c).
Proof.
  intros c Hr. unfold restricted in Hr. unfold registered. rewrite Hr.
  destruct (has_save c), (has_load c); simpl; split; intros H;
    repeat (destruct H as [H|H]; try discriminate); exact H.
Qed.

Lemma is_registered_in : forall c f, is_registered c f = true <-> In f (registered c).
Proof.
  intros c f. unfold is_registered. rewrite existsb_exists. split.
  - intros [x [Hx E]]. destruct f, x; simpl in E; try discriminate; exact Hx.
  - intro H. exists f. split; [exact H|]. destruct f; reflexivity.
Qed.

Lemma exec_run_undefined_when_restricted : forall c ok (st : state) cmd,
  restricted c ->
  step c ok st (RExec cmd) = (st, OUndefined) /\ step c ok st (RRun cmd) = (st, OUndefined).
Proof.
  intros c ok [f lg] cmd Hr. destruct (no_exec_when_restricted c Hr) as [He Hn].
  unfold step.
  destruct (is_registered c FExec) eqn:E1; [exfalso; apply He; apply is_registered_in; exact E1|].
  destruct (is_registered c FRun) eqn:E2; [exfalso; apply Hn; apply is_registered_in; exact E2|].
  split; reflexivity.
Qed.

Lemma registered_spec : forall c,
  (In FSave (registered c) <-> has_save c = true) /\ (In FLoad (registered c) <-> has_load c = true)
  /\ (In FExec (registered c) <-> unrestricted c = true) /\ (In FRun (registered c) <-> unrestricted c = true).
Proof.
  intro c. unfold registered.
  destruct (has_save c), (has_load c), (unrestricted c); simpl; repeat split; intros H;
    try reflexivity; try discriminate; auto;
    repeat (destruct H as [H|H]; try discriminate); try contradiction.
Qed.

(* ------------------------------------------------------------------ the file system *)
Lemma fs_get_set_same : forall f n d, fs_get (fs_set f n d) n = Some d.
Proof.
  induction f as [|[k d0] f IH]; intros n d; simpl.
  - replace (str_eqb n n) with true by (symmetry; apply str_eqb_true; reflexivity). reflexivity.
  - destruct (str_eqb k n) eqn:E; simpl; rewrite E; [reflexivity|apply IH].
Qed.

Lemma fs_get_set_other : forall f n d m, n <> m -> fs_get (fs_set f n d) m = fs_get f m.
Proof.
  induction f as [|[k d0] f IH]; intros n d m Hnm; simpl.
  - replace (str_eqb n m) with false by (symmetry; apply str_eqb_false; exact Hnm). reflexivity.
  - destruct (str_eqb k n) eqn:E; simpl.
    + apply str_eqb_true in E. subst k.
      replace (str_eqb n m) with false by (symmetry; apply str_eqb_false; exact Hnm). reflexivity.
    + destruct (str_eqb k m); [reflexivity|apply IH; exact Hnm].
Qed.

Lemma allowed_grol_png : forall c, allowed c grol_png.
Proof. intro c. left. reflexivity. Qed.

(* one request: the log grows by accesses to allowed names only, files outside the allowed set keep their
   content (present or absent) *)
Lemma step_confined : forall c ok f lg r f' lg' o,
  restricted c -> step c ok (f, lg) r = ((f', lg'), o) ->
  (exists extra, lg' = lg ++ extra /\ forall a, In a extra -> exists n, file_access a n /\ allowed c n)
  /\ (forall n, ~ allowed c n -> fs_get f' n = fs_get f n).
Proof.
  intros c ok f lg r f' lg' o Hr H.
  assert (Hnil : exists extra : list access, lg = lg ++ extra /\
                 forall a, In a extra -> exists n, file_access a n /\ allowed c n).
  { exists []. split; [symmetry; apply app_nil_r|intros a []]. }
  assert (Hone : forall a n, file_access a n -> allowed c n ->
                 exists extra : list access, lg ++ [a] = lg ++ extra /\
                 forall a0, In a0 extra -> exists n0, file_access a0 n0 /\ allowed c n0).
  { intros a n Ha Hn. exists [a]. split; [reflexivity|]. intros a0 [<-|[]]. exists n. split; assumption. }
  assert (Hset : forall n d, allowed c n -> forall m, ~ allowed c m -> fs_get (fs_set f n d) m = fs_get f m).
  { intros n d Hn m Hm. apply fs_get_set_other. intro E. subst m. contradiction. }
  destruct r as [a d|a|found d|cmd|cmd]; unfold step in H.
  - (* save *)
    destruct (is_registered c FSave); [|inversion H; subst; split; [exact Hnil|reflexivity]].
    destruct (sanitize c a) as [n|] eqn:S; [|inversion H; subst; split; [exact Hnil|reflexivity]].
    pose proof (sanitize_allowed c a n Hr S) as Hn.
    destruct (ok n); inversion H; subst; split.
    + apply (Hone _ n); [left; reflexivity|exact Hn].
    + apply Hset; exact Hn.
    + apply (Hone _ n); [left; reflexivity|exact Hn].
    + reflexivity.
  - (* load *)
    destruct (is_registered c FLoad); [|inversion H; subst; split; [exact Hnil|reflexivity]].
    destruct (sanitize c a) as [n|] eqn:S; [|inversion H; subst; split; [exact Hnil|reflexivity]].
    pose proof (sanitize_allowed c a n Hr S) as Hn.
    destruct (fs_get f n); inversion H; subst; split;
      try reflexivity; apply (Hone _ n); try (right; reflexivity); exact Hn.
  - (* image.save *)
    destruct found; [|inversion H; subst; split; [exact Hnil|reflexivity]].
    destruct (ok grol_png); inversion H; subst; split.
    + apply (Hone _ grol_png); [left; reflexivity|apply allowed_grol_png].
    + apply Hset; apply allowed_grol_png.
    + apply (Hone _ grol_png); [left; reflexivity|apply allowed_grol_png].
    + reflexivity.
  - (* exec *)
    destruct (exec_run_undefined_when_restricted c ok (f, lg) cmd Hr) as [E _].
    unfold step in E. rewrite E in H. inversion H; subst. split; [exact Hnil|reflexivity].
  - (* run *)
    destruct (exec_run_undefined_when_restricted c ok (f, lg) cmd Hr) as [_ E].
    unfold step in E. rewrite E in H. inversion H; subst. split; [exact Hnil|reflexivity].
Qed.

Lemma run_cons : forall c ok st r rs,
  run c ok st (r :: rs) =
  (let '(st1, o) := step c ok st r in let '(st2, os) := run c ok st1 rs in (st2, o :: os)).
Proof. reflexivity. Qed.

Lemma run_confined : forall c ok rs f lg f' lg' outs,
  restricted c -> run c ok (f, lg) rs = ((f', lg'), outs) ->
  (exists extra, lg' = lg ++ extra /\ forall a, In a extra -> exists n, file_access a n /\ allowed c n)
  /\ (forall n, ~ allowed c n -> fs_get f' n = fs_get f n).
Proof.
  intros c ok rs. induction rs as [|r rs IH]; intros f lg f' lg' outs Hr H.
  - simpl in H. inversion H; subst. split.
    + exists []. split; [symmetry; apply app_nil_r|intros a []].
    + reflexivity.
  - rewrite run_cons in H.
    destruct (step c ok (f, lg) r) as [[f1 lg1] o] eqn:S.
    destruct (run c ok (f1, lg1) rs) as [[f2 lg2] os] eqn:R.
    inversion H; subst.
    destruct (step_confined c ok f lg r f1 lg1 o Hr S) as [[e1 [E1 A1]] F1].
    destruct (IH f1 lg1 f' lg' os Hr R) as [[e2 [E2 A2]] F2].
    split.
    + exists (e1 ++ e2). split.
      * rewrite E2, E1. symmetry. apply app_assoc.
      * intros a Ha. apply in_app_or in Ha. destruct Ha as [Ha|Ha]; [apply A1|apply A2]; exact Ha.
    + intros n Hn. rewrite (F2 n Hn). apply F1. exact Hn.
Qed.

(* The confinement statement: whatever requests a program issues under a restricted configuration, and
   however the OS answers, every name handed to the OS is in the allowed set (in particular no process is
   spawned), every file outside the allowed set is exactly as before, and any file that exists afterwards
   but not before is in the allowed set. *)
Lemma confined : forall c ok rs f f' lg outs,
  restricted c -> run c ok (f, []) rs = ((f', lg), outs) ->
  (forall a, In a lg -> exists n, file_access a n /\ allowed c n)
  /\ (forall n, ~ allowed c n -> fs_get f' n = fs_get f n)
  /\ (forall n, fs_get f n = None -> fs_get f' n <> None -> allowed c n).
Proof.
  intros c ok rs f f' lg outs Hr H.
  destruct (run_confined c ok rs f [] f' lg outs Hr H) as [[extra [E A]] F].
  simpl in E. subst lg. split; [exact A|]. split; [exact F|].
  intros n H0 H1.
  destruct (empty_only c) eqn:Eo.
  - destruct (str_eqb n grol_png) eqn:E1; [left; apply str_eqb_true; exact E1|].
    destruct (str_eqb n dot_gr) eqn:E2; [right; rewrite Eo; apply str_eqb_true; exact E2|].
    exfalso. apply H1. rewrite F; [exact H0|].
    intros [Hn|Hn]; [apply str_eqb_false in E1; contradiction|].
    rewrite Eo in Hn. apply str_eqb_false in E2. contradiction.
  - destruct (str_eqb n grol_png) eqn:E1; [left; apply str_eqb_true; exact E1|].
    destruct (plainb n) eqn:E2; [right; rewrite Eo; apply plainb_spec; exact E2|].
    exfalso. apply H1. rewrite F; [exact H0|].
    intros [Hn|Hn]; [apply str_eqb_false in E1; contradiction|].
    rewrite Eo in Hn. apply plainb_spec in Hn. congruence.
Qed.

(* the boolean used by the harness-side driver is the allowed set *)
Lemma allowedb_spec : forall c n, allowedb c n = true <-> allowed c n.
Proof.
  intros c n. unfold allowedb, allowed. rewrite orb_true_iff, str_eqb_true.
  destruct (empty_only c).
  - rewrite str_eqb_true. reflexivity.
  - rewrite plainb_spec. reflexivity.
Qed.
