(* More lemmas about model/Maps.v (C11): the printed form is a function of the content; lookup after any sequence
   of writes is "the last write to the key's class wins"; literals written in another order are the same map. *)
From Coq Require Import List ZArith NArith Bool Arith Lia Sorted Permutation.
From GrolModel Require Import Values Cmp Maps.
From GrolProofs Require Import Cmp_proofs Maps_proofs.
Import ListNotations.

Section MapsMore.
  Variables K V : Type.
  Variable kcmp : K -> K -> comparison.
  Hypothesis kcmp_wo : forall x, wo_at kcmp x.

  (* Inspect: SmallMap.Inspect (with its empty special case) and BigMap.Inspect print the same text for the same pairs *)
  Lemma minspect_content : forall (pk : K -> list N) (pv : V -> list N) (m : gmap K V),
    minspect K V pk pv m = [123%N] ++ join_pairs K V pk pv (elems K V m) true ++ [125%N].
  Proof. intros pk pv m. destruct m as [[|p l]|l]; reflexivity. Qed.

  (* the value a sequence of writes leaves for key k: that of the LAST pair whose key is in k's class *)
  Definition last_write (ps : list (K * V)) (k : K) : option V :=
    match find (fun p => keq K kcmp (fst p) k) (rev ps) with
    | Some p => Some (snd p)
    | None => None
    end.

  Lemma find_app_l : forall (A : Type) (f : A -> bool) (a b : list A),
    find f (a ++ b) = match find f a with Some x => Some x | None => find f b end.
  Proof. intros A f a b. induction a as [|x a IH]; simpl; auto. destruct (f x); auto. Qed.

  Lemma last_write_cons : forall p ps k,
    last_write (p :: ps) k =
    match last_write ps k with
    | Some v => Some v
    | None => if keq K kcmp (fst p) k then Some (snd p) else None
    end.
  Proof.
    intros p ps k. unfold last_write. simpl rev. rewrite find_app_l.
    destruct (find (fun q => keq K kcmp (fst q) k) (rev ps)); auto.
    simpl. destruct (keq K kcmp (fst p) k); reflexivity.
  Qed.

  Lemma s_get_set_all : forall ps l k, sorted K V kcmp l ->
    s_get K V kcmp (s_set_all K V kcmp l ps) k =
    match last_write ps k with Some v => Some v | None => s_get K V kcmp l k end.
  Proof.
    induction ps as [|p ps IH]; intros l k HS.
    - reflexivity.
    - change (s_set_all K V kcmp l (p :: ps)) with (s_set_all K V kcmp (s_set K V kcmp l (fst p) (snd p)) ps).
      rewrite IH by (apply sorted_s_set; assumption).
      rewrite last_write_cons. destruct (last_write ps k); auto.
      rewrite (s_get_set K V kcmp kcmp_wo l (fst p) (snd p) k HS).
      destruct (keq K kcmp (fst p) k); reflexivity.
  Qed.

  (* on the implementation: after Set of all the pairs of ps (Append's loop, a literal), Get is last-write-wins *)
  Lemma set_all_lookup : forall ps (m : gmap K V), Inv K V kcmp m ->
    exists m', set_all K V kcmp (Val m) ps = Val m' /\ Inv K V kcmp m' /\
      forall k, mget K V kcmp m' k =
                Val (match last_write ps k with Some v => Some v | None => s_get K V kcmp (elems K V m) k end).
  Proof.
    intros ps m HI.
    destruct (set_all_refines K V kcmp kcmp_wo ps m HI) as (m' & E & L & I').
    exists m'. split; [exact E|]. split; [exact I'|]. intro k.
    rewrite (mget_refines K V kcmp kcmp_wo m' k I'), L.
    rewrite s_get_set_all by (destruct HI; assumption). reflexivity.
  Qed.

  Lemma mliteral_lookup : forall ps,
    exists m', mliteral K V kcmp ps = Val m' /\ Inv K V kcmp m' /\
      forall k, mget K V kcmp m' k = Val (last_write ps k).
  Proof.
    intro ps. unfold mliteral.
    destruct (Inv_new K V kcmp (Z.of_nat (length ps))) as [HI HE].
    destruct (set_all_lookup ps _ HI) as (m' & E & I' & G).
    exists m'. split; [exact E|]. split; [exact I'|]. intro k. rewrite G, HE.
    destruct (last_write ps k); reflexivity.
  Qed.

  (* two literals whose last writes agree key by key answer every lookup alike, whatever the written order, the
     repeats and the representation each one ends in *)
  Lemma mliteral_same_writes : forall ps ps',
    (forall k, last_write ps k = last_write ps' k) ->
    exists m m', mliteral K V kcmp ps = Val m /\ mliteral K V kcmp ps' = Val m' /\
                 forall k, mget K V kcmp m k = mget K V kcmp m' k.
  Proof.
    intros ps ps' H.
    destruct (mliteral_lookup ps) as (m & E & _ & G). destruct (mliteral_lookup ps') as (m' & E' & _ & G').
    exists m, m'. split; [exact E|]. split; [exact E'|]. intro k. rewrite G, G', H. reflexivity.
  Qed.

  (* the same pairs (pairwise inequivalent keys) written in another order: the same content, pair for pair *)
  Lemma mliteral_permutation : forall ps ps',
    Permutation ps ps' -> keys_distinct K V kcmp ps ->
    exists m m', mliteral K V kcmp ps = Val m /\ mliteral K V kcmp ps' = Val m' /\
                 elems K V m = elems K V m' /\ is_big K V m = is_big K V m'.
  Proof.
    intros ps ps' HP HD.
    destruct (mliteral_refines K V kcmp kcmp_wo ps) as (m & E & L & I1).
    destruct (mliteral_refines K V kcmp kcmp_wo ps') as (m' & E' & L' & I2).
    exists m, m'. split; [exact E|]. split; [exact E'|].
    assert (HL : elems K V m = elems K V m').
    { rewrite L, L'. apply (insertion_order_irrelevant K V kcmp kcmp_wo); assumption. }
    split; [exact HL|].
    (* same representation: a literal of n written pairs starts small iff n <= MaxSmallMap, and ends big iff it
       started big or holds more than MaxSmallMap pairs *)
    assert (R : forall qs (a : gmap K V), Inv K V kcmp a ->
              forall b, set_all K V kcmp (Val a) qs = Val b ->
              is_big K V b = (is_big K V a || Nat.ltb max_small (length (elems K V b)))).
    { induction qs as [|q qs IH]; intros a HA b Hb.
      - simpl in Hb. inversion Hb; subst. destruct b as [l|l]; simpl; auto.
        destruct HA as [_ HR]. simpl in HR. symmetry. apply Nat.ltb_ge. exact HR.
      - unfold set_all in Hb. simpl in Hb.
        destruct (mset_refines K V kcmp kcmp_wo a (fst q) (snd q) HA) as (a1 & E1 & L1 & I1').
        rewrite E1 in Hb. fold (set_all K V kcmp (Val a1) qs) in Hb.
        rewrite (IH a1 I1' b Hb).
        (* one Set: big stays big; small becomes big exactly when it would exceed MaxSmallMap *)
        assert (S1 : is_big K V a1 = (is_big K V a || Nat.ltb max_small (length (elems K V a1)))).
        { destruct a as [l|l]; simpl in *.
          - rewrite small_get_spec in E1. simpl in E1.
            destruct (s_get K V kcmp l (fst q)) eqn:G.
            + inversion E1; subst. simpl. destruct HA as [_ HR]. simpl in HR.
              rewrite (set_val_lb K V kcmp l (fst q) (snd q) v G), s_set_length. unfold s_mem. rewrite G.
              symmetry. apply Nat.ltb_ge. exact HR.
            + destruct (Nat.ltb max_small (S (length l))) eqn:B; inversion E1; subst; simpl;
                rewrite (insert_at_lb K V kcmp l (fst q) (snd q) G), s_set_length; unfold s_mem; rewrite G; auto.
          - rewrite (big_get_spec K V kcmp kcmp_wo) in E1 by (destruct HA; assumption).
            destruct (s_get K V kcmp l (fst q)); inversion E1; subst; reflexivity. }
        rewrite S1.
        destruct (is_big K V a); simpl; auto.
        (* small start: once above the threshold the length never comes back down under further Sets *)
        destruct (Nat.ltb max_small (length (elems K V a1))) eqn:B1; simpl; auto.
        apply Nat.ltb_lt in B1. symmetry. apply Nat.ltb_lt.
        destruct (set_all_refines K V kcmp kcmp_wo qs a1 I1') as (b' & Eb & Lb & _).
        unfold set_all in Eb, Hb. rewrite Eb in Hb. inversion Hb; subst b'. rewrite Lb.
        clear - B1. generalize dependent (elems K V a1). induction qs as [|q' qs IHq]; intros l0 B; simpl; auto.
        apply IHq. rewrite s_set_length. destruct (s_mem K V kcmp l0 (fst q')); lia. }
    unfold mliteral in E, E'.
    destruct (Inv_new K V kcmp (Z.of_nat (length ps))) as [HI1 _].
    destruct (Inv_new K V kcmp (Z.of_nat (length ps'))) as [HI2 _].
    rewrite (R ps _ HI1 m E), (R ps' _ HI2 m' E'), HL, (Permutation_length HP). reflexivity.
  Qed.
End MapsMore.
