(* Lemmas about the reference evaluator (C01): they make the reference a legitimate oracle and not a
   second program of unknown meaning.
     - fuel monotonicity (the semantics is a partial function independent of the fuel),
     - integer operators = mathematical operator followed by wrap64 (truncated division, min_int / -1),
     - negative indices and slices = nth_error / firstn o skipn on normalised bounds, at every length,
     - short-circuit && and ||: the right operand has no effect when the left decides,
     - := only writes the current frame; = to a name bound only in an outer frame writes exactly that binding. *)
From Coq Require Import List ZArith NArith Bool Lia.
From GrolGen Require Import Gen_Consts Gen_Prec.
From GrolModel Require Import Ast RefValues RefEval.
Import ListNotations.
Open Scope Z_scope.

(* ================================================================== fuel monotonicity *)
(* m2 agrees with m1 wherever m1 did not run out of fuel *)
Definition mle (m1 m2 : M) : Prop :=
  forall st o st', m1 st = (o, st') -> o <> OAbort AFuel -> m2 st = (o, st').
Definition ev_le (e1 e2 : task -> M) : Prop := forall t, mle (e1 t) (e2 t).

Lemma mle_refl : forall m, mle m m.
Proof. unfold mle; auto. Qed.

Lemma bindo_mle : forall m1 m2 k1 k2,
  mle m1 m2 -> (forall o, mle (k1 o) (k2 o)) -> mle (bindo m1 k1) (bindo m2 k2).
Proof.
  unfold mle, bindo; intros m1 m2 k1 k2 Hm Hk st o st' H Hne.
  destruct (m1 st) as [o1 s1] eqn:E1.
  assert (Hn1 : o1 <> OAbort AFuel).
  { intro; subst o1. inversion H; subst. apply Hne; reflexivity. }
  rewrite (Hm _ _ _ E1 Hn1).
  destruct o1; try (apply (Hk _ _ _ _ H Hne)).
  exact H.
Qed.

Lemma bindx_mle : forall m1 m2 k1 k2,
  mle m1 m2 -> (forall v, mle (k1 v) (k2 v)) -> mle (bindx m1 k1) (bindx m2 k2).
Proof.
  intros; unfold bindx; apply bindo_mle; auto.
  intros o; destruct o; auto using mle_refl.
Qed.

Lemma gets_mle : forall (A : Type) (f : state -> A) k1 k2,
  (forall a, mle (k1 a) (k2 a)) -> mle (gets f k1) (gets f k2).
Proof. unfold mle, gets; intros; eapply H; eauto. Qed.

Lemma modify_mle : forall f k1 k2, mle k1 k2 -> mle (modify f k1) (modify f k2).
Proof. unfold mle, modify; intros; eapply H; eauto. Qed.

(* syntax directed proof search for mle goals *)
Ltac mono_step :=
  match goal with
  | |- mle ?x ?x => apply mle_refl
  | |- mle (bindx _ _) (bindx _ _) => apply bindx_mle; [ | intros ]
  | |- mle (bindo _ _) (bindo _ _) => apply bindo_mle; [ | intros ]
  | |- mle (gets _ _) (gets _ _) => apply gets_mle; intros
  | |- mle (modify _ _) (modify _ _) => apply modify_mle
  | |- mle (match ?x with _ => _ end) (match ?x with _ => _ end) => destruct x
  | |- mle (if ?x then _ else _) (if ?x then _ else _) => destruct x
  | |- mle (let _ := ?x in _) _ => cbv zeta
  end.

Section Mono.
  Variables e1 e2 : task -> M.
  Hypothesis Hev : ev_le e1 e2.

  Ltac mono := repeat (first [ mono_step | apply Hev ]).

  Lemma evalI_mle : forall n, mle (evalI e1 n) (evalI e2 n).
  Proof. intros [n|]; simpl; mono. Qed.

  Lemma evalE_mle : forall n, mle (evalE e1 n) (evalE e2 n).
  Proof. intros [n|]; simpl; unfold evalE; mono. Qed.

  Lemma eval_list_mle : forall l, mle (eval_list e1 l) (eval_list e2 l).
  Proof.
    induction l as [|n r IH]; simpl; [apply mle_refl|].
    apply bindx_mle; [apply evalI_mle|]. intros v.
    apply bindx_mle; [exact IH|]. intros; apply mle_refl.
  Qed.

  Lemma eval_stmts_mle : forall l last, mle (eval_stmts e1 l last) (eval_stmts e2 l last).
  Proof.
    induction l as [|n r IH]; intros last; simpl; [apply mle_refl|].
    destruct n as [n|]; [|apply mle_refl].
    destruct n; try (apply IH);
      (apply bindo_mle; [apply Hev|]; intros o; destruct o; auto using mle_refl).
  Qed.

  Lemma print_args_mle : forall l first acc, mle (print_args e1 l first acc) (print_args e2 l first acc).
  Proof.
    induction l as [|n r IH]; intros first acc; simpl; [apply mle_refl|].
    apply bindx_mle; [apply evalI_mle|]. intros v.
    destruct (display v); [apply IH|apply mle_refl].
  Qed.

  Lemma map_pairs_mle : forall l acc, mle (map_pairs e1 l acc) (map_pairs e2 l acc).
  Proof.
    induction l as [|[k v] r IH]; intros acc; simpl; [apply mle_refl|].
    apply bindx_mle; [apply evalE_mle|]. intros kv.
    apply bindx_mle; [apply evalE_mle|]. intros vv.
    destruct (is_opaque kv); [apply mle_refl|].
    destruct (mset acc kv vv); [apply IH|apply mle_refl].
  Qed.

  Lemma for_list_mle : forall name items b last,
    mle (for_list e1 name items b last) (for_list e2 name items b last).
  Proof.
    induction items as [|x r IH]; intros b last; simpl; [apply mle_refl|].
    apply bindo_mle; [apply mle_refl|]. intros _.
    apply bindo_mle; [apply Hev|]. intros o.
    destruct o; auto using mle_refl.
  Qed.

  Lemma call_fun_mle : forall f args, mle (call_fun e1 f args) (call_fun e2 f args).
  Proof.
    intros f args; unfold call_fun.
    destruct f; try apply mle_refl.
    cbv zeta.
    match goal with |- mle (if ?c then _ else _) _ => destruct c end; [apply mle_refl|].
    apply gets_mle; intros ce.
    apply gets_mle; intros id.
    apply modify_mle.
    apply bindo_mle; [apply mle_refl|]. intros o.
    destruct o; try apply mle_refl.
    apply modify_mle.
    apply bindo_mle; [apply Hev|]. intros; apply mle_refl.
  Qed.

  Lemma assign_mle : forall t lhs right, mle (assign e1 t lhs right) (assign e2 t lhs right).
  Proof.
    intros t lhs right; unfold assign.
    destruct (node_tok lhs) as [lt|]; [|apply mle_refl].
    destruct (tk lt token_DOT); [apply mle_refl|].
    destruct (tk lt token_LBRACKET).
    - destruct lhs; try apply mle_refl.
      apply bindx_mle; [apply evalE_mle|]. intros; apply mle_refl.
    - apply mle_refl.
  Qed.

  Lemma eval_builtin_mle : forall t ps, mle (eval_builtin e1 t ps) (eval_builtin e2 t ps).
  Proof.
    intros t ps; unfold eval_builtin; cbv zeta.
    repeat match goal with
           | |- mle (if ?c then _ else _) (if ?c then _ else _) => destruct c
           | |- mle ?x ?x => apply mle_refl
           | |- mle (bindx (print_args _ _ _ _) _) _ => apply bindx_mle; [apply print_args_mle | intros; apply mle_refl]
           end.
    destruct (match ps with Some l => l | None => [] end) as [|p [|q r]]; try apply mle_refl.
    repeat match goal with
           | |- mle (if ?c then _ else _) (if ?c then _ else _) => destruct c
           | |- mle ?x ?x => apply mle_refl
           | |- mle (bindx (evalI _ _) _) _ => apply bindx_mle; [apply evalI_mle | intros; apply mle_refl]
           | |- mle (bindo (evalI _ _) _) _ => apply bindo_mle; [apply evalI_mle | intros; apply mle_refl]
           end.
    destruct p as [p|]; [|apply mle_refl].
    destruct p; try apply mle_refl.
    destruct idx; try apply mle_refl.
    repeat match goal with
           | |- mle (if ?c then _ else _) (if ?c then _ else _) => destruct c
           | |- mle ?x ?x => apply mle_refl
           | |- mle (bindx (evalE _ _) _) _ => apply bindx_mle; [apply evalE_mle | intros; apply mle_refl]
           end.
  Qed.

  Lemma for_int_mle : forall name a b body, mle (for_int e1 name a b body) (for_int e2 name a b body).
  Proof. intros; unfold for_int; mono. Qed.

  Lemma eval_for_mle : forall c b, mle (eval_for e1 c b) (eval_for e2 c b).
  Proof.
    intros c b; unfold eval_for.
    destruct c as [c|]; [|apply mle_refl].
    destruct b as [b|]; [|apply mle_refl].
    cbv zeta.
    assert (Hgen : mle (e1 (TWhile c b VNil)) (e2 (TWhile c b VNil))) by apply Hev.
    destruct c; try exact Hgen.
    destruct left as [lhs|]; [|exact Hgen].
    destruct right as [rhs|]; [|exact Hgen].
    match goal with |- mle (if ?x then _ else _) _ => destruct x end; [|exact Hgen].
    destruct (node_tok lhs) as [lt|]; [|apply mle_refl].
    destruct (tk lt token_IDENT); [|apply mle_refl].
    assert (Hgeneral : forall rhs',
      mle (bindx (e1 (TNode rhs')) (fun v =>
             match v with
             | VInt n => for_int e1 (Some (tlit lt)) 0 n b
             | VOpaque => unk
             | VFun _ _ _ _ _ _ | VBool _ | VNil | VFloat _ => e1 (TWhile (NInfix t (Some lhs) (Some rhs)) b VNil)
             | _ => match iter_items v with
                    | Some items => for_list e1 (tlit lt) items b VNil
                    | None => unk
                    end
             end))
          (bindx (e2 (TNode rhs')) (fun v =>
             match v with
             | VInt n => for_int e2 (Some (tlit lt)) 0 n b
             | VOpaque => unk
             | VFun _ _ _ _ _ _ | VBool _ | VNil | VFloat _ => e2 (TWhile (NInfix t (Some lhs) (Some rhs)) b VNil)
             | _ => match iter_items v with
                    | Some items => for_list e2 (tlit lt) items b VNil
                    | None => unk
                    end
             end))).
    { intros rhs'. apply bindx_mle; [apply Hev|]. intros v.
      destruct v; try apply Hev; try apply for_int_mle; try apply mle_refl;
        (destruct (iter_items _); [apply for_list_mle|apply mle_refl]). }
    destruct rhs; try apply Hgeneral.
    match goal with |- mle (if ?x then _ else _) _ => destruct x end; [|apply Hgeneral].
    apply bindx_mle; [apply evalI_mle|]. intros a.
    destruct a; try apply mle_refl.
    apply bindx_mle; [apply evalI_mle|]. intros bb.
    destruct bb; try apply mle_refl. apply for_int_mle.
  Qed.

  Lemma branch_mle : forall b, mle (branch e1 b) (branch e2 b).
  Proof. intros [n|]; simpl; mono. Qed.

  Lemma eval_node_mle : forall n, mle (eval_node e1 n) (eval_node e2 n).
  Proof.
    intros n; destruct n; simpl; try apply mle_refl.
    - (* NReturn *) destruct v; [|apply mle_refl]. apply bindx_mle; [apply Hev|intros; apply mle_refl].
    - (* NStmts *) apply eval_stmts_mle.
    - (* NPrefix *)
      match goal with |- mle (if ?x then _ else _) _ => destruct x end; [apply mle_refl|].
      apply bindx_mle; [apply evalE_mle|intros; apply mle_refl].
    - (* NInfix *)
      match goal with |- mle (if ?x then _ else _) _ => destruct x end.
      + destruct left; [|apply mle_refl].
        apply bindx_mle; [apply evalE_mle|]. intros; apply assign_mle.
      + apply bindx_mle; [apply evalE_mle|]. intros lv.
        repeat match goal with |- mle (if ?x then _ else _) (if ?x then _ else _) => destruct x end;
          try apply mle_refl.
        apply bindx_mle; [apply evalE_mle|intros; apply mle_refl].
    - (* NFor *) apply eval_for_mle.
    - (* NIf *)
      apply bindx_mle; [apply evalI_mle|]. intros v.
      destruct v; try apply mle_refl. destruct b; apply branch_mle.
    - (* NBuiltin *) apply eval_builtin_mle.
    - (* NCall *)
      apply bindx_mle; [apply evalE_mle|]. intros fv.
      apply bindx_mle; [apply eval_list_mle|]. intros av.
      destruct av; try apply mle_refl. apply call_fun_mle.
    - (* NArray *) apply eval_list_mle.
    - (* NIndex *)
      apply bindx_mle; [apply evalE_mle|]. intros lv.
      match goal with |- mle (if ?x then _ else _) _ => destruct x end; [apply mle_refl|].
      destruct idx as [i|]; [|apply mle_refl].
      destruct i; try (apply bindx_mle; [apply evalE_mle|intros; apply mle_refl]).
      match goal with |- mle (if ?x then _ else _) _ => destruct x end;
        [|apply bindx_mle; [apply evalE_mle|intros; apply mle_refl]].
      apply bindo_mle; [apply evalE_mle|]. intros oa.
      destruct right; [|apply mle_refl].
      apply bindo_mle; [apply evalE_mle|]. intros; apply mle_refl.
    - (* NMap *) apply map_pairs_mle.
  Qed.

  Lemma step_mle : forall t, mle (step e1 t) (step e2 t).
  Proof.
    intros t; destruct t; simpl.
    - apply eval_node_mle.
    - apply bindx_mle; [apply Hev|]. intros v.
      destruct v; try apply mle_refl.
      + apply for_int_mle.
      + destruct b0; [|apply mle_refl].
        apply bindo_mle; [apply Hev|]. intros o. destruct o; try apply mle_refl; apply Hev.
    - match goal with |- mle (if ?x then _ else _) _ => destruct x end; [apply mle_refl|].
      apply bindo_mle; [apply mle_refl|]. intros _.
      apply bindo_mle; [apply Hev|]. intros o. destruct o; try apply mle_refl; apply Hev.
  Qed.
End Mono.

Lemma run_mono_S : forall f, ev_le (run f) (run (S f)).
Proof.
  induction f as [|f IH].
  - intros t st o st' H Hne. simpl in H. unfold ret in H. inversion H; subst. congruence.
  - intros t. change (mle (step (run f) t) (step (run (S f)) t)). apply step_mle. exact IH.
Qed.

Lemma ev_le_trans : forall a b c, ev_le a b -> ev_le b c -> ev_le a c.
Proof. unfold ev_le, mle; intros a b c H1 H2 t st o st' H Hne. eapply H2; eauto. Qed.

Lemma run_mono : forall f f', (f <= f')%nat -> ev_le (run f) (run f').
Proof.
  intros f f' Hle; induction Hle.
  - intros t; apply mle_refl.
  - eapply ev_le_trans; [exact IHHle|apply run_mono_S].
Qed.

(* a result obtained with fuel n is obtained with every larger fuel *)
Theorem eval_fuel_monotone : forall (n n' : nat) (t : task) (st st' : state) (o : outcome),
  run n t st = (o, st') -> o <> OAbort AFuel -> (n <= n')%nat -> run n' t st = (o, st').
Proof. intros n n' t st st' o H Hne Hle. exact (run_mono n n' Hle t st o st' H Hne). Qed.

(* hence the result does not depend on the fuel: two sufficient fuels give the same answer *)
Theorem eval_fuel_independent : forall (n m : nat) (t : task) (st s1 s2 : state) (o1 o2 : outcome),
  run n t st = (o1, s1) -> run m t st = (o2, s2) ->
  o1 <> OAbort AFuel -> o2 <> OAbort AFuel -> o1 = o2 /\ s1 = s2.
Proof.
  intros n m t st s1 s2 o1 o2 H1 H2 N1 N2.
  destruct (Nat.le_ge_cases n m) as [L|L].
  - pose proof (eval_fuel_monotone n m t st s1 o1 H1 N1 L) as E. rewrite E in H2. inversion H2; auto.
  - pose proof (eval_fuel_monotone m n t st s2 o2 H2 N2 L) as E. rewrite E in H1. inversion H1; auto.
Qed.

Lemma unwrap_fuel : forall o, unwrap o = OAbort AFuel -> o = OAbort AFuel.
Proof. destruct o; simpl; congruence. Qed.

Theorem program_fuel_monotone : forall (n n' : nat) (p : node) (o : outcome) (st : state),
  eval_program n p = (o, st) -> o <> OAbort AFuel -> (n <= n')%nat -> eval_program n' p = (o, st).
Proof.
  unfold eval_program; intros n n' p o st H Hne Hle.
  destruct (run n (TNode p) init_state) as [o1 s1] eqn:E. inversion H; subst.
  assert (o1 <> OAbort AFuel) by (intro; subst; apply Hne; reflexivity).
  rewrite (eval_fuel_monotone n n' _ _ _ _ E H0 Hle). reflexivity.
Qed.

(* ================================================================== integers *)
Lemma two64_pos : 0 < two64. Proof. reflexivity. Qed.

Lemma wrap64_range : forall z, in_int64 (wrap64 z).
Proof.
  intros z; unfold in_int64, wrap64, min_int, max_int.
  pose proof (Z.mod_pos_bound (z + two63) two64 two64_pos). unfold two63, two64 in *. lia.
Qed.

Lemma wrap64_id : forall z, in_int64 z -> wrap64 z = z.
Proof.
  intros z [H1 H2]; unfold wrap64, min_int, max_int in *.
  rewrite Z.mod_small; unfold two63, two64 in *; lia.
Qed.

Lemma wrap64_idem : forall z, wrap64 (wrap64 z) = wrap64 z.
Proof. intros; apply wrap64_id, wrap64_range. Qed.

(* wrap64 z is the representative of z modulo 2^64 in the int64 range *)
Lemma wrap64_congr : forall z, (wrap64 z - z) mod two64 = 0.
Proof.
  intros z; unfold wrap64.
  replace ((z + two63) mod two64 - two63 - z) with ((z + two63) mod two64 - (z + two63)) by lia.
  rewrite Zminus_mod, Z.mod_mod by (unfold two64; lia).
  rewrite Z.sub_diag. reflexivity.
Qed.

(* every integer operator is the mathematical operator followed by wrap64; / and % truncate *)
Theorem int_ops_wrap : forall a b : Z,
  int_add a b = wrap64 (a + b) /\
  int_sub a b = wrap64 (a - b) /\
  int_mul a b = wrap64 (a * b) /\
  int_neg a = wrap64 (- a) /\
  (b <> 0 -> int_div a b = Some (wrap64 (Z.quot a b))) /\
  (b <> 0 -> int_mod a b = Some (wrap64 (Z.rem a b))) /\
  int_div a 0 = None /\ int_mod a 0 = None /\
  (0 <= b < 64 -> int_shl a b = Some (wrap64 (a * 2 ^ b))) /\
  (64 <= b -> int_shl a b = Some 0 /\ int_shr a b = Some 0) /\
  (b < 0 -> int_shl a b = None /\ int_shr a b = None) /\
  (0 <= b < 64 -> int_shr a b = Some (wrap64 (uimage a / 2 ^ b))).
Proof.
  intros a b; unfold int_add, int_sub, int_mul, int_neg, int_div, int_mod, int_shl, int_shr.
  repeat match goal with |- _ /\ _ => split end; try reflexivity; intros H.
  - destruct (Z.eqb_spec b 0); [contradiction|reflexivity].
  - destruct (Z.eqb_spec b 0); [contradiction|reflexivity].
  - destruct (Z.ltb_spec b 0); [lia|]. destruct (Z.leb_spec 64 b); [lia|reflexivity].
  - destruct (Z.ltb_spec b 0); [lia|]. destruct (Z.leb_spec 64 b); [split; reflexivity|lia].
  - destruct (Z.ltb_spec b 0); [split; reflexivity|lia].
  - destruct (Z.ltb_spec b 0); [lia|]. destruct (Z.leb_spec 64 b); [lia|reflexivity].
Qed.

(* the boundary cases of two's complement division *)
Lemma int_div_min_neg1 : int_div min_int (-1) = Some min_int /\ int_mod min_int (-1) = Some 0
  /\ int_neg min_int = min_int /\ int_add max_int 1 = min_int /\ int_sub min_int 1 = max_int.
Proof. vm_compute. repeat split. Qed.

(* in range the operators are the mathematical ones *)
Lemma int_add_exact : forall a b, in_int64 (a + b) -> int_add a b = a + b.
Proof. intros; apply wrap64_id; auto. Qed.

Lemma int_results_in_range : forall a b z,
  (int_div a b = Some z \/ int_mod a b = Some z \/ int_shl a b = Some z \/ int_shr a b = Some z) -> in_int64 z.
Proof.
  unfold int_div, int_mod, int_shl, int_shr; intros a b z H.
  assert (Z0 : in_int64 0) by (unfold in_int64, min_int, max_int, two63; lia).
  destruct H as [H|[H|[H|H]]];
    repeat match type of H with (if ?c then _ else _) = _ => destruct c end;
    inversion H; subst; auto using wrap64_range.
Qed.

(* ================================================================== indices and slices *)
(* a negative index i (with -len <= i < 0) designates position len + i; outside -len .. len-1 there is nothing *)
Theorem index_neg : forall (A : Type) (l : list A) (i : Z),
  let len := Z.of_nat (length l) in
  (0 <= i < len -> seq_index l i = nth_error l (Z.to_nat i)) /\
  (- len <= i < 0 -> seq_index l i = nth_error l (Z.to_nat (len + i))) /\
  (i < - len \/ len <= i -> seq_index l i = None).
Proof.
  intros A l i len; unfold seq_index, norm_index; fold len.
  repeat split; intros H.
  - destruct (Z.ltb_spec i 0); [lia|].
    destruct (Z.ltb_spec i 0); [lia|]. destruct (Z.leb_spec len i); [lia|]. reflexivity.
  - destruct (Z.ltb_spec i 0); [|lia].
    destruct (Z.ltb_spec (len + i) 0); [lia|]. destruct (Z.leb_spec len (len + i)); [lia|]. reflexivity.
  - destruct (Z.ltb_spec i 0).
    + destruct (Z.ltb_spec (len + i) 0); [reflexivity|]. destruct (Z.leb_spec len (len + i)); [reflexivity|lia].
    + destruct (Z.ltb_spec i 0); [lia|]. destruct (Z.leb_spec len i); [reflexivity|lia].
Qed.

Lemma index_neg_same : forall (A : Type) (l : list A) (i : Z),
  - Z.of_nat (length l) <= i < 0 -> seq_index l i = seq_index l (Z.of_nat (length l) + i).
Proof.
  intros A l i H.
  destruct (index_neg A l i) as [_ [Hn _]]. rewrite (Hn H).
  destruct (index_neg A l (Z.of_nat (length l) + i)) as [Hp _]. rewrite Hp by lia. reflexivity.
Qed.

(* x[l:r] with 0 <= l <= r <= len is firstn (r-l) (skipn l x); negative bounds count from the end;
   an inverted range is an error; bounds outside are clamped: at every length (no size thresholds) *)
Ltac no_if t := lazymatch t with context[if _ then _ else _] => fail | _ => idtac end.
Ltac zcases :=
  repeat (cbv iota;
          match goal with
          | |- context[Z.ltb ?a ?b] => no_if a; no_if b; destruct (Z.ltb_spec a b); try lia
          end);
  cbv iota.

Theorem slice_spec : forall (A : Type) (xs : list A) (l r : Z),
  let len := Z.of_nat (length xs) in
  (0 <= l <= r /\ r <= len ->
     seq_slice xs l (Some r) = Some (firstn (Z.to_nat (r - l)) (skipn (Z.to_nat l) xs))) /\
  (0 <= l <= len -> seq_slice xs l None = Some (skipn (Z.to_nat l) xs)) /\
  (- len <= l < 0 -> seq_slice xs l (Some r) = seq_slice xs (len + l) (Some r)
                     /\ seq_slice xs l None = seq_slice xs (len + l) None) /\
  (- len <= r < 0 -> 0 <= l -> seq_slice xs l (Some r) = seq_slice xs l (Some (len + r))) /\
  (0 <= l -> 0 <= r -> r < l -> seq_slice xs l (Some r) = None) /\
  (0 <= l <= r -> l <= len -> len < r -> seq_slice xs l (Some r) = seq_slice xs l None).
Proof.
  intros A xs l r len; unfold seq_slice, slice_bounds, clamp; fold len.
  repeat match goal with |- _ /\ _ => split end; intros.
  - zcases. reflexivity.
  - zcases. rewrite firstn_all2; [reflexivity|]. rewrite skipn_length. lia.
  - split; zcases; reflexivity.
  - zcases; reflexivity.
  - zcases; reflexivity.
  - zcases; reflexivity.
Qed.

Lemma nth_firstn_lt : forall (A : Type) (n k : nat) (l : list A),
  (k < n)%nat -> nth_error (firstn n l) k = nth_error l k.
Proof.
  induction n; intros k l H; [lia|]. destruct l; [destruct k; reflexivity|].
  destruct k; simpl; [reflexivity|]. apply IHn; lia.
Qed.

Lemma nth_skipn_add : forall (A : Type) (n k : nat) (l : list A),
  nth_error (skipn n l) k = nth_error l (n + k).
Proof.
  induction n; intros k l; [reflexivity|]. destruct l; simpl; [destruct k; reflexivity|]. apply IHn.
Qed.

(* the element at a valid index of a slice is the element of the original sequence *)
Lemma slice_nth : forall (A : Type) (xs : list A) (l r : Z) (ys : list A) (k : nat),
  0 <= l <= r -> r <= Z.of_nat (length xs) -> seq_slice xs l (Some r) = Some ys ->
  (k < Z.to_nat (r - l))%nat -> nth_error ys k = nth_error xs (Z.to_nat l + k).
Proof.
  intros A xs l r ys k H1 H2 H3 H4.
  destruct (slice_spec A xs l r) as [Hs _]. rewrite Hs in H3 by lia. inversion H3; subst.
  rewrite nth_firstn_lt by assumption. apply nth_skipn_add.
Qed.

(* ================================================================== short circuit *)
Definition tok_of (ty : Z) : tok := mkTok ty [].

Theorem shortcircuit_and : forall (f : nat) (l r : node) (lit : bytes) (st st' : state),
  run f (TNode l) st = (OVal (VBool false), st') ->
  run (S f) (TNode (NInfix (mkTok token_AND lit) (Some l) (Some r))) st = (OVal (VBool false), st').
Proof.
  intros f l r lit st st' H. simpl. unfold bindx, bindo, evalE, bindo. rewrite H. reflexivity.
Qed.

Theorem shortcircuit_or : forall (f : nat) (l r : node) (lit : bytes) (st st' : state),
  run f (TNode l) st = (OVal (VBool true), st') ->
  run (S f) (TNode (NInfix (mkTok token_OR lit) (Some l) (Some r))) st = (OVal (VBool true), st').
Proof.
  intros f l r lit st st' H. simpl. unfold bindx, bindo, evalE, bindo. rewrite H. reflexivity.
Qed.

(* ================================================================== scoping *)
Lemma heap_set_length : forall h id e, length (heap_set h id e) = length h.
Proof. induction h; destruct id; simpl; auto. Qed.

Lemma heap_set_other : forall h id e k, k <> id -> nth_error (heap_set h id e) k = nth_error h k.
Proof.
  induction h as [|x h IH]; intros id e k Hk; destruct id; destruct k; simpl; auto; try congruence.
Qed.

Lemma heap_set_same : forall h id e, (id < length h)%nat -> nth_error (heap_set h id e) id = Some e.
Proof.
  induction h as [|x h IH]; intros id e Hl; destruct id; simpl in *; try lia; auto.
  apply IH; lia.
Qed.

Lemma store_set_get_same : forall s n v, store_get (store_set s n v) n = Some v.
Proof.
  assert (R : forall n, bytes_eqb n n = true).
  { unfold bytes_eqb. induction n; simpl; auto. rewrite N.compare_refl. exact IHn. }
  induction s as [|[k x] s IH]; intros n v; simpl.
  - rewrite R; reflexivity.
  - destruct (bytes_eqb k n) eqn:E; simpl; rewrite E; auto.
Qed.

Lemma set_in_other : forall st id n v k, k <> id -> nth_error (heap (set_in st id n v)) k = nth_error (heap st) k.
Proof.
  intros st id n v k Hk; unfold set_in. destruct (nth_error (heap st) id); simpl; auto.
  apply heap_set_other; auto.
Qed.

Lemma set_in_frame : forall st id n v,
  cur (set_in st id n v) = cur st /\ out (set_in st id n v) = out st /\
  length (heap (set_in st id n v)) = length (heap st).
Proof.
  intros; unfold set_in. destruct (nth_error (heap st) id); simpl; auto using heap_set_length.
Qed.

Lemma set_in_binds : forall st id n v e,
  nth_error (heap st) id = Some e ->
  exists e', nth_error (heap (set_in st id n v)) id = Some e' /\ store_get (estore e') n = Some v
             /\ eouter e' = eouter e /\ efun e' = efun e.
Proof.
  intros st id n v e H; unfold set_in; rewrite H; simpl.
  eexists; split.
  - apply heap_set_same. apply nth_error_Some. congruence.
  - simpl. auto using store_set_get_same.
Qed.

(* x := v never writes an outer store: every environment other than the current one is unchanged,
   nothing is printed, and the current frame now binds x to v *)
Theorem define_is_local : forall (n : bytes) (v : value) (st : state) (o : outcome) (st' : state),
  create_or_set n v true st = (o, st') ->
  (forall k, k <> cur st -> nth_error (heap st') k = nth_error (heap st) k)
  /\ out st' = out st /\ cur st' = cur st
  /\ (o = OVal v -> forall e, nth_error (heap st) (cur st) = Some e ->
        exists e', nth_error (heap st') (cur st) = Some e' /\ store_get (estore e') n = Some v).
Proof.
  intros n v st o st' H. unfold create_or_set in H.
  assert (D : forall o0 s0, modify (fun s => set_define s n v) (retv v) st = (o0, s0) ->
              o0 = OVal v /\ s0 = set_define st n v).
  { unfold modify, retv, ret; intros o0 s0 E; inversion E; auto. }
  assert (G : (o = OVal v /\ st' = set_define st n v) \/ (st' = st /\ o <> OVal v)).
  { destruct (is_constant n).
    - unfold gets in H. destruct (get_var st n).
      + destruct (vequals a v) as [[|]|].
        * left; apply D; exact H.
        * right; unfold err, ret in H; inversion H; split; auto; congruence.
        * right; unfold unk, ret in H; inversion H; split; auto; congruence.
      + left; apply D; exact H.
      + right; unfold unk, ret in H; inversion H; split; auto; congruence.
    - left; apply D; exact H. }
  destruct G as [[Ho Hs]|[Hs Ho]]; subst.
  - unfold set_define. repeat split.
    + intros k Hk. apply set_in_other; auto.
    + apply set_in_frame.
    + apply set_in_frame.
    + intros _ e He. destruct (set_in_binds st (cur st) n v e He) as [e' [A [B _]]]. eauto.
  - repeat split; auto. intros; contradiction.
Qed.

(* x = v where x is bound in no frame from the current one up to (excluding) frame k, and frame k binds it:
   exactly that binding is written; every other environment, including the current one, is unchanged *)
Theorem assign_through : forall (n : bytes) (v : value) (st : state) (k : nat),
  is_constant n = false ->
  find_env (S (length (heap st))) (heap st) (cur st) n = LFound k ->
  k <> cur st ->
  exists st', create_or_set n v false st = (OVal v, st')
    /\ (forall j, j <> k -> nth_error (heap st') j = nth_error (heap st) j)
    /\ (forall e, nth_error (heap st) k = Some e ->
          exists e', nth_error (heap st') k = Some e' /\ store_get (estore e') n = Some v
                     /\ eouter e' = eouter e /\ efun e' = efun e)
    /\ out st' = out st /\ cur st' = cur st.
Proof.
  intros n v st k Hc Hf Hk.
  exists (set_in st k n v). unfold create_or_set. rewrite Hc.
  unfold gets, set_assign. rewrite Hf. unfold modify, retv, ret.
  repeat split.
  - intros j Hj. apply set_in_other; auto.
  - intros e He. apply set_in_binds; auto.
  - apply set_in_frame.
  - apply set_in_frame.
Qed.

(* find_env returns the nearest binding frame: the frame it returns binds the name *)
Lemma find_env_binds : forall fuel h id n k,
  find_env fuel h id n = LFound k -> exists e x, nth_error h k = Some e /\ store_get (estore e) n = Some x.
Proof.
  induction fuel as [|f IH]; intros h id n k H; simpl in H; [discriminate|].
  destruct (nth_error h id) as [e|] eqn:E; [|discriminate].
  destruct (store_get (estore e) n) as [x|] eqn:S.
  - inversion H; subst. eauto.
  - destruct (eouter e); [eapply IH; eauto|discriminate].
Qed.

(* a name bound nowhere is created in the current frame by = *)
Theorem assign_creates_local : forall (n : bytes) (v : value) (st : state),
  is_constant n = false ->
  find_env (S (length (heap st))) (heap st) (cur st) n = LMissing ->
  create_or_set n v false st = (OVal v, set_define st n v).
Proof.
  intros n v st Hc Hf. unfold create_or_set. rewrite Hc. unfold gets, set_assign. rewrite Hf. reflexivity.
Qed.

(* ================================================================== binding strengths *)
(* the precedence table read from /repo on this run is the documented one the reference was written against *)
Lemma prec_table_frozen :
  prec_tables_agree Gen_Prec.precedences ref_prec = true /\ strictly_increasing ref_levels = true.
Proof. vm_compute. split; reflexivity. Qed.

Lemma prec_lookup_agree : forall t1 t2 t,
  prec_tables_agree t1 t2 = true -> prec_lookup t1 t = prec_lookup t2 t.
Proof.
  intros t1 t2 t H. unfold prec_tables_agree in H. rewrite forallb_forall in H.
  assert (L : forall tbl, prec_lookup tbl t <> None -> exists p, In (t, p) tbl).
  { induction tbl as [|[k p] r IH]; simpl; intros Hn; [congruence|].
    destruct (Z.eqb_spec k t); [subst; eauto|]. destruct (IH Hn) as [q Hq]; eauto. }
  assert (E : forall a b, opt_z_eqb a b = true -> a = b).
  { intros [x|] [y|]; simpl; intros; try congruence. f_equal. apply Z.eqb_eq; auto. }
  destruct (prec_lookup t1 t) as [p1|] eqn:E1.
  - destruct (L t1) as [p Hp]; [congruence|].
    specialize (H (t, p) (in_or_app _ _ _ (or_introl Hp))). simpl in H. apply E in H. congruence.
  - destruct (prec_lookup t2 t) as [p2|] eqn:E2; [|reflexivity].
    destruct (L t2) as [p Hp]; [congruence|].
    specialize (H (t, p) (in_or_app _ _ _ (or_intror Hp))). simpl in H. apply E in H. congruence.
Qed.

(* for EVERY token type the implementation's table and the frozen table give the same binding strength *)
Theorem prec_table_is_reference : forall t : Z, prec_lookup Gen_Prec.precedences t = prec_lookup ref_prec t.
Proof. intros t. apply prec_lookup_agree. exact (proj1 prec_table_frozen). Qed.

(* ================================================================== runes *)
(* on ASCII strings the runes are the bytes (first / rest / for then work bytewise) *)
Lemma runes_fuel_ascii : forall s fuel, all_ascii s = true -> (length s <= fuel)%nat ->
  runes_fuel fuel s = map (fun c => [c]) s.
Proof.
  induction s as [|c r IH]; intros fuel Ha Hl; [destruct fuel; reflexivity|].
  destruct fuel as [|f]; [simpl in Hl; lia|].
  simpl in Ha. apply andb_true_iff in Ha. destruct Ha as [Hc Hr].
  simpl. unfold split_rune. simpl. rewrite Hc. simpl. f_equal. apply IH; [exact Hr|simpl in Hl; lia].
Qed.

Lemma runes_ascii : forall s, all_ascii s = true -> runes s = map (fun c => [c]) s /\ reencode s = s.
Proof.
  intros s H. unfold reencode, runes. rewrite (runes_fuel_ascii s (length s) H (le_n _)). split; [reflexivity|].
  clear H. induction s; simpl; [reflexivity|]. f_equal. exact IHs.
Qed.
