(* Lemmas about model/Maps.v (C11): the SmallMap / BigMap operations refine a finite map kept as a strictly
   sorted association list, for every key order that is a total preorder (Cmp_proofs.wo_at); the
   instantiation with the model of object.Cmp is at the end. *)
From Coq Require Import List ZArith NArith Bool Arith Lia Sorted Permutation.
From GrolGen Require Import Gen_Consts.
From GrolModel Require Import Values Cmp Maps.
From GrolProofs Require Import Cmp_proofs.
Import ListNotations.

Section MapsProofs.
  Variables K V : Type.
  Variable kcmp : K -> K -> comparison.
  Hypothesis kcmp_wo : forall x, wo_at kcmp x.

  Notation pair := (K * V)%type.
  Notation gmap := (gmap K V).
  Notation elems := (elems K V).
  Notation s_get := (s_get K V kcmp).
  Notation s_set := (s_set K V kcmp).
  Notation s_del := (s_del K V kcmp).
  Notation s_mem := (s_mem K V kcmp).
  Notation s_set_all := (s_set_all K V kcmp).
  Notation small_get := (small_get K V kcmp).
  Notation bs_loop := (bs_loop K V kcmp).
  Notation big_get := (big_get K V kcmp).
  Notation mget := (mget K V kcmp).
  Notation mset := (mset K V kcmp).
  Notation mdelete := (mdelete K V kcmp).
  Notation mappend := (mappend K V kcmp).
  Notation mliteral := (mliteral K V kcmp).
  Notation set_all := (set_all K V kcmp).
  Notation step := (step K V kcmp).
  Notation s_step := (s_step K V kcmp).
  Notation run := (run K V kcmp).
  Notation s_run := (s_run K V kcmp).

  (* ---------------------------------------------------------------- the key order *)
  Lemma kc_refl : forall x, kcmp x x = Eq.
  Proof. intro x. apply (kcmp_wo x). Qed.
  Lemma kc_sym : forall x y, kcmp y x = CompOpp (kcmp x y).
  Proof. intros x y. destruct (kcmp_wo x) as (_ & S & _). apply S. Qed.
  Lemma kc_eq_l : forall x y z, kcmp x y = Eq -> kcmp x z = kcmp y z.
  Proof. intros x y z. destruct (kcmp_wo x) as (_ & _ & T1 & _). apply T1. Qed.
  Lemma kc_lt_le : forall x y z, kcmp x y = Lt -> kcmp y z <> Gt -> kcmp x z = Lt.
  Proof. intros x y z. destruct (kcmp_wo x) as (_ & _ & _ & T2). apply T2. Qed.
  Lemma kc_eq_r : forall x y z, kcmp x y = Eq -> kcmp z x = kcmp z y.
  Proof. intros x y z H. rewrite (kc_sym x z), (kc_sym y z), (kc_eq_l x y z H). reflexivity. Qed.
  Lemma kc_lt_trans : forall x y z, kcmp x y = Lt -> kcmp y z = Lt -> kcmp x z = Lt.
  Proof. intros x y z H1 H2. apply (kc_lt_le x y z H1). rewrite H2. discriminate. Qed.
  Lemma kc_gt_lt : forall x y, kcmp x y = Gt -> kcmp y x = Lt.
  Proof. intros x y H. rewrite kc_sym, H. reflexivity. Qed.
  Lemma kc_lt_gt : forall x y, kcmp x y = Lt -> kcmp y x = Gt.
  Proof. intros x y H. rewrite kc_sym, H. reflexivity. Qed.
  Lemma kc_eq_sym : forall x y, kcmp x y = Eq -> kcmp y x = Eq.
  Proof. intros x y H. rewrite kc_sym, H. reflexivity. Qed.
  (* x <= y < z  ->  x < z *)
  Lemma kc_le_lt : forall x y z, kcmp x y <> Gt -> kcmp y z = Lt -> kcmp x z = Lt.
  Proof.
    intros x y z H1 H2.
    destruct (kcmp x z) eqn:E; auto; exfalso.
    - (* x ~ z : then y < z ~ x, so y < x, i.e. x > y *)
      apply H1. apply kc_lt_gt. rewrite (kc_eq_r x z y E). exact H2.
    - (* z < x : y < z < x *)
      apply H1. apply kc_lt_gt. apply kc_lt_trans with z; auto. apply kc_gt_lt; exact E.
  Qed.

  Definition klt (p q : pair) : Prop := kcmp (fst p) (fst q) = Lt.
  Definition sorted (l : list pair) : Prop := StronglySorted klt l.
  (* a is below every key of l *)
  Definition below (a : K) (l : list pair) : Prop := Forall (fun p => kcmp a (fst p) = Lt) l.

  Lemma sorted_cons_inv : forall p l, sorted (p :: l) -> sorted l /\ below (fst p) l.
  Proof. intros p l H. inversion H; subst. split; assumption. Qed.

  Lemma sorted_cons : forall p l, sorted l -> below (fst p) l -> sorted (p :: l).
  Proof. intros. constructor; assumption. Qed.

  Lemma below_trans : forall a b l, kcmp a b <> Gt -> below b l -> below a l.
  Proof.
    intros a b l H HB. unfold below in *. rewrite Forall_forall in *. intros p Hp.
    apply kc_le_lt with b; auto.
  Qed.

  (* ---------------------------------------------------------------- positions *)
  (* number of leading keys strictly below [key] = the index both searches return *)
  Fixpoint lb (l : list pair) (key : K) : nat :=
    match l with
    | [] => 0
    | (k, _) :: t => match kcmp k key with Lt => S (lb t key) | _ => 0 end
    end.

  Lemma small_get_spec : forall l key i0, small_get l key i0 = (s_get l key, i0 + lb l key).
  Proof.
    induction l as [|[k v] t IH]; intros key i0; simpl.
    - f_equal. lia.
    - destruct (kcmp k key).
      + f_equal. lia.
      + rewrite IH. f_equal. lia.
      + f_equal. lia.
  Qed.

  Lemma lb_le_len : forall l key, lb l key <= length l.
  Proof. induction l as [|[k v] t IH]; intro key; simpl; auto. destruct (kcmp k key); simpl; try lia. specialize (IH key). lia. Qed.

  Lemma s_get_at_lb : forall l key,
    s_get l key = match nth_error l (lb l key) with
                  | Some (k, v) => match kcmp k key with Eq => Some v | _ => None end
                  | None => None
                  end.
  Proof.
    induction l as [|[k v] t IH]; intro key; simpl; auto.
    destruct (kcmp k key) eqn:E; simpl.
    - rewrite E. reflexivity.
    - apply IH.
    - rewrite E. reflexivity.
  Qed.

  Lemma nth_below_lb : forall l key h, h < lb l key ->
    exists k v, nth_error l h = Some (k, v) /\ kcmp k key = Lt.
  Proof.
    induction l as [|[k v] t IH]; intros key h H; simpl in *; [lia|].
    destruct (kcmp k key) eqn:E; try lia.
    destruct h as [|h]; simpl.
    - exists k, v. auto.
    - apply IH. lia.
  Qed.

  Lemma nth_from_lb : forall l key h k v, sorted l -> lb l key <= h ->
    nth_error l h = Some (k, v) -> kcmp k key <> Lt.
  Proof.
    induction l as [|[k0 v0] t IH]; intros key h k v HS Hh Hn; simpl in *.
    - destruct h; discriminate.
    - apply sorted_cons_inv in HS. destruct HS as [HS HB]. simpl in HB.
      destruct (kcmp k0 key) eqn:E.
      + destruct h as [|h]; simpl in Hn.
        * inversion Hn; subst. rewrite E. discriminate.
        * intro HL. apply nth_error_In in Hn. unfold below in HB. rewrite Forall_forall in HB.
          specialize (HB _ Hn). simpl in HB.
          assert (kcmp k0 key = Lt) by (apply kc_lt_trans with k; auto). congruence.
      + destruct h as [|h]; [lia|]. simpl in Hn. apply (IH key h k v HS); auto. lia.
      + destruct h as [|h]; simpl in Hn.
        * inversion Hn; subst. rewrite E. discriminate.
        * intro HL. apply nth_error_In in Hn. unfold below in HB. rewrite Forall_forall in HB.
          specialize (HB _ Hn). simpl in HB.
          assert (kcmp k0 key = Lt) by (apply kc_lt_trans with k; auto). congruence.
  Qed.

  Lemma div2_mid : forall i j, i < j -> i <= Nat.div2 (i + j) < j.
  Proof.
    intros i j H. pose proof (Nat.div2_odd (i + j)) as E.
    destruct (Nat.odd (i + j)); simpl in E; lia.
  Qed.

  (* slices.BinarySearchFunc stays in range, terminates, and returns the linear position *)
  Lemma bs_loop_ok : forall l key, sorted l ->
    forall fuel i j, i <= lb l key -> lb l key <= j -> j <= length l -> j - i <= fuel ->
    bs_loop l key fuel i j = Some (lb l key).
  Proof.
    intros l key HS. induction fuel as [|f IH]; intros i j Hi Hj Hl Hf.
    - simpl. destruct (Nat.ltb_spec i j); [lia|]. f_equal. lia.
    - simpl. destruct (Nat.ltb_spec i j) as [Hij|Hij]; [|f_equal; lia].
      pose proof (div2_mid i j Hij) as [H1 H2].
      set (h := Nat.div2 (i + j)) in *.
      destruct (nth_error l h) as [[k v]|] eqn:En.
      + destruct (kcmp k key) eqn:E.
        * (* not below: h >= lb *)
          assert (lb l key <= h).
          { destruct (Nat.le_gt_cases (lb l key) h); auto.
            destruct (nth_below_lb l key h H) as (k' & v' & Hn & HL). rewrite En in Hn. inversion Hn; subst. congruence. }
          apply IH; lia.
        * assert (h < lb l key).
          { destruct (Nat.le_gt_cases (lb l key) h); auto.
            exfalso. apply (nth_from_lb l key h k v HS H En). exact E. }
          apply IH; lia.
        * assert (lb l key <= h).
          { destruct (Nat.le_gt_cases (lb l key) h); auto.
            destruct (nth_below_lb l key h H) as (k' & v' & Hn & HL). rewrite En in Hn. inversion Hn; subst. congruence. }
          apply IH; lia.
      + apply nth_error_None in En. lia.
  Qed.

  Lemma big_get_spec : forall l key, sorted l -> big_get l key = Val (s_get l key, lb l key).
  Proof.
    intros l key HS. unfold Maps.big_get.
    rewrite (bs_loop_ok l key HS (length l) 0 (length l)); try lia; [|apply lb_le_len].
    rewrite (s_get_at_lb l key).
    destruct (nth_error l (lb l key)) as [[k v]|]; auto. destruct (kcmp k key); reflexivity.
  Qed.

  (* binary search and linear search agree on sorted lists *)
  Lemma binary_search_is_linear : forall l key, sorted l ->
    big_get l key = Val (small_get l key 0).
  Proof. intros. rewrite big_get_spec by assumption. rewrite small_get_spec. reflexivity. Qed.

  (* ---------------------------------------------------------------- list surgery = reference operations *)
  Lemma set_val_lb : forall l key v v0, s_get l key = Some v0 -> set_val K V l (lb l key) v = s_set l key v.
  Proof.
    induction l as [|[k w] t IH]; intros key v v0 H; simpl in *; [discriminate|].
    destruct (kcmp k key) eqn:E; try discriminate; simpl.
    - reflexivity.
    - f_equal. apply (IH key v v0 H).
  Qed.

  Lemma insert_at_lb : forall l key v, s_get l key = None -> insert_at K V l (lb l key) (key, v) = s_set l key v.
  Proof.
    unfold insert_at.
    induction l as [|[k w] t IH]; intros key v H; simpl in *; auto.
    destruct (kcmp k key) eqn:E; try discriminate; simpl.
    - f_equal. apply (IH key v H).
    - reflexivity.
  Qed.

  Lemma remove_at_lb : forall l key v0, s_get l key = Some v0 -> remove_at K V l (lb l key) = s_del l key.
  Proof.
    unfold remove_at.
    induction l as [|[k w] t IH]; intros key v0 H; simpl in *; [discriminate|].
    destruct (kcmp k key) eqn:E; try discriminate; simpl.
    - reflexivity.
    - f_equal. apply (IH key v0 H).
  Qed.

  Lemma s_del_absent : forall l key, s_get l key = None -> s_del l key = l.
  Proof.
    induction l as [|[k w] t IH]; intros key H; simpl in *; auto.
    destruct (kcmp k key) eqn:E; try discriminate; auto.
    f_equal. apply IH. exact H.
  Qed.

  Lemma s_set_length : forall l key v,
    length (s_set l key v) = if s_mem l key then length l else S (length l).
  Proof.
    unfold Maps.s_mem.
    induction l as [|[k w] t IH]; intros key v; simpl; auto.
    destruct (kcmp k key) eqn:E; simpl; auto.
    rewrite IH. destruct (s_get t key); reflexivity.
  Qed.

  (* ---------------------------------------------------------------- sortedness is preserved *)
  Lemma below_s_set : forall a l key v, below a l -> kcmp a key = Lt -> below a (s_set l key v).
  Proof.
    unfold below. induction l as [|[k w] t IH]; intros key v HB HA; simpl.
    - constructor; auto.
    - inversion HB; subst. simpl in *. destruct (kcmp k key) eqn:E.
      + constructor; auto.
      + constructor; auto.
      + constructor; auto.
  Qed.

  Lemma below_s_del : forall a l key, below a l -> below a (s_del l key).
  Proof.
    unfold below. induction l as [|[k w] t IH]; intros key HB; simpl; auto.
    inversion HB; subst. destruct (kcmp k key); auto.
  Qed.

  Lemma sorted_s_set : forall l key v, sorted l -> sorted (s_set l key v).
  Proof.
    induction l as [|[k w] t IH]; intros key v HS; simpl.
    - apply sorted_cons; [constructor|constructor].
    - apply sorted_cons_inv in HS. destruct HS as [HS HB]. simpl in HB.
      destruct (kcmp k key) eqn:E.
      + apply sorted_cons; auto.
      + apply sorted_cons; [apply IH; auto|]. simpl. apply below_s_set; auto.
      + apply sorted_cons; [apply sorted_cons; auto|]. simpl.
        constructor; [simpl; apply kc_gt_lt; exact E|].
        apply below_trans with k; auto. rewrite (kc_gt_lt k key E). discriminate.
  Qed.

  Lemma sorted_s_del : forall l key, sorted l -> sorted (s_del l key).
  Proof.
    induction l as [|[k w] t IH]; intros key HS; simpl; auto.
    pose proof HS as HS0.
    apply sorted_cons_inv in HS. destruct HS as [HS HB]. simpl in HB.
    destruct (kcmp k key); auto.
    apply sorted_cons; [apply IH; auto|]. simpl. apply below_s_del; auto.
  Qed.

  Lemma sorted_tl : forall l, sorted l -> sorted (tl l).
  Proof. intros [|p l] H; simpl; auto. apply sorted_cons_inv in H. tauto. Qed.

  Lemma sorted_skipn : forall n l, sorted l -> sorted (skipn n l).
  Proof.
    induction n; intros l H; simpl; auto. destruct l; auto.
    apply IHn. apply sorted_cons_inv in H. tauto.
  Qed.

  Lemma below_firstn : forall a n l, below a l -> below a (firstn n l).
  Proof.
    unfold below. induction n; intros l H; simpl; auto. destruct l; auto.
    inversion H; subst. constructor; auto.
  Qed.

  Lemma sorted_firstn : forall n l, sorted l -> sorted (firstn n l).
  Proof.
    induction n; intros l H; simpl; [constructor|]. destruct l; [constructor|].
    apply sorted_cons_inv in H. destruct H as [HS HB].
    apply sorted_cons; [apply IHn; auto|]. apply below_firstn. exact HB.
  Qed.

  Lemma sorted_s_set_all : forall ps l, sorted l -> sorted (s_set_all l ps).
  Proof.
    unfold Maps.s_set_all. induction ps as [|p ps IH]; intros l H; simpl; auto.
    apply IH. apply sorted_s_set. exact H.
  Qed.

  (* ---------------------------------------------------------------- invariant and refinement, per operation *)
  Definition rep_ok (m : gmap) : Prop :=
    match m with Small l => length l <= max_small | Big _ => True end.
  Definition Inv (m : gmap) : Prop := sorted (elems m) /\ rep_ok m.

  Lemma Inv_new : forall n, Inv (mnew K V n) /\ elems (mnew K V n) = [].
  Proof.
    intro n. unfold mnew. destruct (Z.leb n object_MaxSmallMap); simpl; (split; [split|]; auto; try constructor).
    simpl. lia.
  Qed.

  Lemma mget_refines : forall m key, Inv m -> mget m key = Val (s_get (elems m) key).
  Proof.
    intros [l|l] key [HS HR]; simpl in *.
    - rewrite small_get_spec. reflexivity.
    - rewrite big_get_spec by assumption. reflexivity.
  Qed.

  Lemma mset_refines : forall m key v, Inv m ->
    exists m', mset m key v = Val m' /\ elems m' = s_set (elems m) key v /\ Inv m'.
  Proof.
    intros [l|l] key v [HS HR]; simpl in *.
    - rewrite small_get_spec. simpl.
      destruct (s_get l key) as [v0|] eqn:E.
      + eexists. split; [reflexivity|]. simpl. rewrite (set_val_lb l key v v0 E).
        split; [reflexivity|]. split; [apply sorted_s_set; auto|].
        simpl. rewrite s_set_length. unfold Maps.s_mem. rewrite E. exact HR.
      + destruct (Nat.ltb_spec max_small (S (length l))).
        * eexists. split; [reflexivity|]. simpl. rewrite (insert_at_lb l key v E).
          split; [reflexivity|]. split; [apply sorted_s_set; auto|exact I].
        * eexists. split; [reflexivity|]. simpl. rewrite (insert_at_lb l key v E).
          split; [reflexivity|]. split; [apply sorted_s_set; auto|].
          simpl. rewrite s_set_length. unfold Maps.s_mem. rewrite E. lia.
    - rewrite big_get_spec by assumption.
      destruct (s_get l key) as [v0|] eqn:E.
      + eexists. split; [reflexivity|]. simpl. rewrite (set_val_lb l key v v0 E).
        split; [reflexivity|]. split; [apply sorted_s_set; auto|exact I].
      + eexists. split; [reflexivity|]. simpl. rewrite (insert_at_lb l key v E).
        split; [reflexivity|]. split; [apply sorted_s_set; auto|exact I].
  Qed.

  Lemma s_del_length_le : forall l key, length (s_del l key) <= length l.
  Proof.
    induction l as [|[k w] t IH]; intro key; simpl; auto.
    destruct (kcmp k key); simpl; auto. specialize (IH key). lia.
  Qed.

  Lemma mdelete_refines : forall m key, Inv m ->
    exists m', mdelete m key = Val (m', s_mem (elems m) key) /\ elems m' = s_del (elems m) key /\ Inv m'.
  Proof.
    intros [l|l] key [HS HR]; simpl in *; unfold Maps.s_mem.
    - rewrite small_get_spec. simpl.
      destruct (s_get l key) as [v0|] eqn:E.
      + eexists. split; [reflexivity|]. simpl. rewrite (remove_at_lb l key v0 E).
        split; [reflexivity|]. split; [apply sorted_s_del; auto|].
        simpl. pose proof (s_del_length_le l key). lia.
      + eexists. split; [reflexivity|]. simpl. rewrite (s_del_absent l key E).
        split; [reflexivity|]. split; auto.
    - rewrite big_get_spec by assumption.
      destruct (s_get l key) as [v0|] eqn:E.
      + eexists. split; [reflexivity|]. simpl. rewrite (remove_at_lb l key v0 E).
        split; [reflexivity|]. split; [apply sorted_s_del; auto|exact I].
      + eexists. split; [reflexivity|]. simpl. rewrite (s_del_absent l key E).
        split; [reflexivity|]. split; auto; exact I.
  Qed.

  Lemma mrest_refines : forall m, Inv m ->
    match s_rest K V (elems m) with
    | Some t => exists m', mrest K V m = Some m' /\ elems m' = t /\ Inv m'
    | None => mrest K V m = None
    end.
  Proof.
    intros [l|l] [HS HR]; simpl in *.
    - destruct l as [|p [|q t]]; simpl; auto.
      eexists. split; [reflexivity|]. split; [reflexivity|]. split.
      + simpl. apply sorted_cons_inv in HS. tauto.
      + simpl in *. lia.
    - destruct l as [|p [|q t]]; simpl; auto.
      match goal with |- context [Nat.ltb ?a ?b] => destruct (Nat.ltb_spec a b) end.
      + eexists. split; [reflexivity|]. split; [reflexivity|]. split; [|exact I].
        simpl. apply sorted_cons_inv in HS. tauto.
      + eexists. split; [reflexivity|]. split; [reflexivity|]. split.
        * simpl. apply sorted_cons_inv in HS. tauto.
        * simpl in *. lia.
  Qed.

  Lemma mrange_refines : forall m lo hi, Inv m ->
    match s_range K V (elems m) lo hi with
    | Some s => exists m', mrange K V m lo hi = Val m' /\ elems m' = s /\ Inv m'
    | None => mrange K V m lo hi = GoPanic
    end.
  Proof.
    intros m lo hi [HS HR]. unfold s_range, mrange.
    destruct (Nat.leb lo hi && Nat.leb hi (length (elems m))) eqn:G; [|destruct m; reflexivity].
    apply andb_true_iff in G. destruct G as [G1 G2]. apply Nat.leb_le in G1, G2.
    assert (SS : sorted (firstn (hi - lo) (skipn lo (elems m)))) by (apply sorted_firstn, sorted_skipn, HS).
    destruct m as [l|l]; simpl in *.
    - eexists. split; [reflexivity|]. split; [reflexivity|]. split; auto.
      simpl. rewrite firstn_length, skipn_length. lia.
    - destruct (Nat.ltb_spec max_small (hi - lo)).
      + eexists. split; [reflexivity|]. split; [reflexivity|]. split; auto; exact I.
      + eexists. split; [reflexivity|]. split; [reflexivity|]. split; auto.
        simpl. rewrite firstn_length, skipn_length. lia.
  Qed.

  Lemma set_all_refines : forall ps m, Inv m ->
    exists m', set_all (Val m) ps = Val m' /\ elems m' = s_set_all (elems m) ps /\ Inv m'.
  Proof.
    unfold Maps.set_all, Maps.s_set_all.
    induction ps as [|p ps IH]; intros m HI; simpl.
    - exists m. auto.
    - destruct (mset_refines m (fst p) (snd p) HI) as (m1 & E1 & L1 & I1).
      rewrite E1. destruct (IH m1 I1) as (m' & E' & L' & I'). exists m'.
      split; [exact E'|]. split; [rewrite L', L1; reflexivity| exact I'].
  Qed.

  Lemma mappend_refines : forall m r, Inv m -> Inv r ->
    exists m', mappend m r = Val m' /\ elems m' = s_set_all (elems m) (elems r) /\ Inv m'.
  Proof.
    intros m r [HS HR] HIr. unfold Maps.mappend.
    set (start := match m with
                  | Small l => if Nat.leb (mlen K V r) max_small then Small l else Big l
                  | Big l => Big l end).
    assert (HI : Inv start /\ elems start = elems m).
    { unfold start. destruct m as [l|l]; simpl in *.
      - destruct (Nat.leb (mlen K V r) max_small); simpl; split; auto; split; auto. exact I.
      - split; auto. split; auto. }
    destruct HI as [HI HE].
    destruct (set_all_refines (elems r) start HI) as (m' & E & L & I').
    exists m'. split; [exact E|]. split; [rewrite L, HE; reflexivity|exact I'].
  Qed.

  Lemma mliteral_refines : forall ps,
    exists m', mliteral ps = Val m' /\ elems m' = s_set_all [] ps /\ Inv m'.
  Proof.
    intro ps. unfold Maps.mliteral.
    destruct (Inv_new (Z.of_nat (length ps))) as [HI HE].
    destruct (set_all_refines ps _ HI) as (m' & E & L & I').
    exists m'. split; [exact E|]. split; [rewrite L, HE; reflexivity|exact I'].
  Qed.

  (* ---------------------------------------------------------------- operation sequences *)
  Definition op_ok (o : op K V) : Prop :=
    match o with
    | OAppend _ _ r => Inv r
    | OPrepend _ _ l => Inv l
    | _ => True
    end.

  Lemma step_refines : forall m o, Inv m -> op_ok o ->
    match s_step (elems m) o with
    | Some (l', b) => exists m', step m o = Val (m', b) /\ elems m' = l' /\ Inv m'
    | None => step m o = GoPanic
    end.
  Proof.
    intros m o HI HO. destruct o; simpl.
    - destruct (mset_refines m k v HI) as (m' & E & L & I'). rewrite E. simpl. eauto.
    - rewrite (mget_refines m k HI). simpl. eauto.
    - destruct (mdelete_refines m k HI) as (m' & E & L & I'). rewrite E. simpl. eauto.
    - destruct (mappend_refines m r HI HO) as (m' & E & L & I'). rewrite E. simpl. eauto.
    - destruct (mappend_refines l m HO HI) as (m' & E & L & I'). rewrite E. simpl. eauto.
    - exists m. split; [|auto]. unfold mfirst. reflexivity.
    - pose proof (mrest_refines m HI) as H. destruct (s_rest K V (elems m)) as [t|].
      + destruct H as (m' & E & L & I'). rewrite E. eauto.
      + rewrite H. eauto.
    - pose proof (mrange_refines m lo hi HI) as H. destruct (s_range K V (elems m) lo hi) as [s|].
      + destruct H as (m' & E & L & I'). rewrite E. simpl. eauto.
      + rewrite H. reflexivity.
    - exists m. split; [|auto]. reflexivity.
    - destruct (mliteral_refines ps) as (m' & E & L & I'). rewrite E. simpl. eauto.
  Qed.

  Theorem run_refines : forall ops m, Inv m -> Forall op_ok ops ->
    run m ops = match s_run (elems m) ops with Some x => Val x | None => GoPanic end.
  Proof.
    induction ops as [|o ops IH]; intros m HI HO; simpl; auto.
    inversion HO as [|? ? HO1 HO2]; subst.
    pose proof (step_refines m o HI HO1) as H.
    destruct (s_step (elems m) o) as [[l' b]|].
    - destruct H as (m' & E & L & I'). rewrite E. rewrite (IH m' I' HO2). rewrite L.
      destruct (s_run l' ops); reflexivity.
    - rewrite H. reflexivity.
  Qed.

  (* every observation of every history equals that of the reference map, whatever the size hint *)
  Corollary maps_are_finite_maps : forall (n : Z) ops, Forall op_ok ops ->
    run (mnew K V n) ops = match s_run [] ops with Some x => Val x | None => GoPanic end.
  Proof.
    intros n ops HO. destruct (Inv_new n) as [HI HE]. rewrite (run_refines ops _ HI HO), HE. reflexivity.
  Qed.

  (* two maps with the same content behave the same from then on, whatever their representation / history *)
  Corollary history_independent : forall m1 m2 ops, Inv m1 -> Inv m2 -> elems m1 = elems m2 ->
    Forall op_ok ops -> run m1 ops = run m2 ops.
  Proof. intros. rewrite !run_refines by assumption. rewrite H1. reflexivity. Qed.

  (* the invariant holds in every state reachable from NewMapSize by the operations *)
  Lemma step_Inv : forall m o m' b, Inv m -> op_ok o -> step m o = Val (m', b) -> Inv m'.
  Proof.
    intros m o m' b HI HO E. pose proof (step_refines m o HI HO) as H.
    destruct (s_step (elems m) o) as [[l' b']|].
    - destruct H as (m1 & E1 & _ & I1). rewrite E in E1. inversion E1; subst. exact I1.
    - rewrite E in H. discriminate.
  Qed.

  (* ---------------------------------------------------------------- the reference is a finite map *)
  Definition keq (a b : K) : bool := match kcmp a b with Eq => true | _ => false end.

  Lemma s_get_nil : forall key, s_get [] key = None.
  Proof. reflexivity. Qed.

  Lemma below_get_none : forall a l key, below a l -> kcmp key a <> Gt -> s_get l key = None.
  Proof.
    intros a l key HB HA. destruct l as [|[k w] t]; simpl; auto.
    inversion HB; subst. simpl in *.
    assert (kcmp key k = Lt) by (apply kc_le_lt with a; auto).
    rewrite (kc_lt_gt key k H). reflexivity.
  Qed.

  Lemma s_get_set : forall l key v key', sorted l ->
    s_get (s_set l key v) key' = if keq key key' then Some v else s_get l key'.
  Proof.
    unfold keq.
    induction l as [|[k w] t IH]; intros key v key' HS; simpl.
    - destruct (kcmp key key'); reflexivity.
    - apply sorted_cons_inv in HS. destruct HS as [HS HB]. simpl in HB.
      destruct (kcmp k key) eqn:E; simpl.
      + (* same class: value replaced *)
        rewrite <- (kc_eq_l k key key' E). destruct (kcmp k key'); reflexivity.
      + rewrite (IH key v key' HS).
        destruct (kcmp key key') eqn:E2.
        * rewrite (kc_lt_le k key key' E) by (rewrite E2; discriminate). reflexivity.
        * reflexivity.
        * reflexivity.
      + (* inserted in front *)
        destruct (kcmp key key') eqn:E2; auto.
        * (* key' < key < k *)
          assert (kcmp key' k = Lt) by (apply kc_lt_trans with key; [apply kc_gt_lt; exact E2 | apply kc_gt_lt; exact E]).
          rewrite (kc_lt_gt key' k H). reflexivity.
  Qed.

  Lemma s_get_del : forall l key key', sorted l ->
    s_get (s_del l key) key' = if keq key key' then None else s_get l key'.
  Proof.
    unfold keq.
    induction l as [|[k w] t IH]; intros key key' HS; simpl.
    - destruct (kcmp key key'); reflexivity.
    - apply sorted_cons_inv in HS. destruct HS as [HS HB]. simpl in HB.
      destruct (kcmp k key) eqn:E; simpl.
      + rewrite <- (kc_eq_l k key key' E).
        destruct (kcmp k key') eqn:E2; auto.
        * apply (below_get_none k t key' HB). rewrite (kc_sym k key'), E2. discriminate.
        * apply (below_get_none k t key' HB). rewrite (kc_sym k key'), E2. discriminate.
      + rewrite (IH key key' HS).
        destruct (kcmp key key') eqn:E2; auto.
        rewrite <- (kc_eq_r key key' k E2), E. reflexivity.
      + destruct (kcmp key key') eqn:E2; auto.
        rewrite <- (kc_eq_r key key' k E2), E. reflexivity.
  Qed.

  (* equivalent keys are the same key *)
  Lemma s_get_equiv : forall l key key', kcmp key key' = Eq -> s_get l key = s_get l key'.
  Proof.
    induction l as [|[k w] t IH]; intros key key' E; simpl; auto.
    rewrite (kc_eq_r key key' k E). destruct (kcmp k key'); auto.
  Qed.

  (* ---------------------------------------------------------------- insertion order does not matter *)
  Lemma s_set_comm : forall l k1 v1 k2 v2, kcmp k1 k2 <> Eq ->
    s_set (s_set l k1 v1) k2 v2 = s_set (s_set l k2 v2) k1 v1.
  Proof.
    induction l as [|[k w] t IH]; intros k1 v1 k2 v2 HN; simpl.
    - rewrite (kc_sym k1 k2). destruct (kcmp k1 k2); simpl; congruence.
    - destruct (kcmp k k1) eqn:E1; destruct (kcmp k k2) eqn:E2; simpl; rewrite ?E1, ?E2; simpl.
      + (* k ~ k1, k ~ k2: impossible *)
        exfalso. apply HN. rewrite <- (kc_eq_l k k1 k2 E1). exact E2.
      + reflexivity.
      + (* k ~ k1, k2 < k *)
        assert (H : kcmp k2 k1 = Lt) by (rewrite <- (kc_eq_r k k1 k2 E1); apply kc_gt_lt; exact E2).
        rewrite H. reflexivity.
      + reflexivity.
      + rewrite (IH k1 v1 k2 v2 HN). reflexivity.
      + (* k < k1, k2 < k *)
        assert (H : kcmp k2 k1 = Lt) by (apply kc_lt_trans with k; [apply kc_gt_lt; exact E2|exact E1]).
        rewrite H. reflexivity.
      + (* k1 < k, k ~ k2 *)
        assert (H : kcmp k1 k2 = Lt) by (rewrite <- (kc_eq_r k k2 k1 E2); apply kc_gt_lt; exact E1).
        rewrite H. reflexivity.
      + (* k1 < k < k2 *)
        assert (H : kcmp k1 k2 = Lt) by (apply kc_lt_trans with k; [apply kc_gt_lt; exact E1|exact E2]).
        rewrite H. reflexivity.
      + (* k1 < k, k2 < k *)
        rewrite (kc_sym k1 k2). destruct (kcmp k1 k2) eqn:E3; simpl; congruence.
  Qed.

  Definition keys_distinct (ps : list pair) : Prop :=
    ForallOrdPairs (fun p q => kcmp (fst p) (fst q) <> Eq) ps.

  Lemma s_set_all_set_comm : forall ps l k v,
    Forall (fun p => kcmp k (fst p) <> Eq) ps ->
    s_set_all (s_set l k v) ps = s_set (s_set_all l ps) k v.
  Proof.
    unfold Maps.s_set_all.
    induction ps as [|p ps IH]; intros l k v HF; simpl; auto.
    inversion HF; subst. rewrite (s_set_comm l k v (fst p) (snd p)) by assumption.
    apply IH. assumption.
  Qed.

  Theorem insertion_order_irrelevant : forall ps ps' l,
    Permutation ps ps' -> keys_distinct ps -> s_set_all l ps = s_set_all l ps'.
  Proof.
    intros ps ps' l HP. revert l. induction HP; intros l0 HD.
    - reflexivity.
    - unfold Maps.s_set_all in *. simpl. apply IHHP. inversion HD; subst. assumption.
    - unfold Maps.s_set_all. simpl. inversion HD as [|? ? H1 H2]; subst.
      inversion H1; subst.
      rewrite (s_set_comm l0 (fst y) (snd y) (fst x) (snd x)) by assumption. reflexivity.
    - rewrite IHHP1 by assumption. apply IHHP2.
      (* keys_distinct is invariant under permutation *)
      clear - HP1 HD kcmp_wo. unfold keys_distinct in *.
      induction HP1.
      + constructor.
      + inversion HD; subst. constructor.
        * rewrite Forall_forall in *. intros q Hq. apply H1. apply Permutation_sym in HP1.
          apply (Permutation_in _ HP1). exact Hq.
        * apply IHHP1. assumption.
      + inversion HD as [|? ? H1 H2]; subst. inversion H1; subst. inversion H2; subst.
        constructor.
        * constructor; auto. intro E. apply H3. apply kc_eq_sym. exact E.
        * constructor; auto.
      + apply IHHP1_2. apply IHHP1_1. assumption.
  Qed.
  (* ---------------------------------------------------------------- several bindings: maps are values *)
  Notation bnew := (bnew K V kcmp).
  Notation bstep := (bstep K V kcmp).
  Notation brun := (brun K V kcmp).
  Notation s_bnew := (s_bnew K V kcmp).
  Notation s_bstep := (s_bstep K V kcmp).
  Notation s_brun := (s_brun K V kcmp).

  Lemma nth_error_map_elems : forall (st : list gmap) i,
    nth_error (map elems st) i = option_map elems (nth_error st i).
  Proof. intros. apply nth_error_map. Qed.

  Lemma Forall_nth : forall (st : list gmap) i m, Forall Inv st -> nth_error st i = Some m -> Inv m.
  Proof. intros st i m HF HN. rewrite Forall_forall in HF. apply HF. eapply nth_error_In; eauto. Qed.

  Lemma bnew_refines : forall st o, Forall Inv st ->
    match s_bnew (map elems st) o with
    | Some l => exists m, bnew st o = Val m /\ elems m = l /\ Inv m
    | None => bnew st o = GoPanic
    end.
  Proof.
    intros st o HF. destruct o; simpl; unfold Maps.s_with, Maps.with_binding; rewrite ?nth_error_map_elems.
    - destruct (mliteral_refines ps) as (m & E & L & I'). eauto.
    - destruct (nth_error st i) as [m|] eqn:E; simpl; auto.
      destruct (mset_refines m k v (Forall_nth st i m HF E)) as (m' & E' & L & I'). eauto.
    - destruct (nth_error st i) as [m|] eqn:E; simpl; auto.
      destruct (mdelete_refines m k (Forall_nth st i m HF E)) as (m' & E' & L & I'). rewrite E'. simpl. eauto.
    - destruct (nth_error st i) as [m|] eqn:E; simpl; auto.
      destruct (nth_error st j) as [r|] eqn:E2; simpl; auto.
      destruct (mappend_refines m r (Forall_nth st i m HF E) (Forall_nth st j r HF E2)) as (m' & E' & L & I'). eauto.
    - destruct (nth_error st i) as [m|] eqn:E; simpl; auto.
      pose proof (mrest_refines m (Forall_nth st i m HF E)) as H.
      destruct (s_rest K V (elems m)) as [t|].
      + destruct H as (m' & E' & L & I'). rewrite E'. eauto.
      + rewrite H. reflexivity.
    - destruct (nth_error st i) as [m|] eqn:E; simpl; auto.
      pose proof (mrange_refines m lo hi (Forall_nth st i m HF E)) as H.
      destruct (s_range K V (elems m) lo hi) as [t|]; auto.
  Qed.

  Theorem brun_refines : forall ops st, Forall Inv st ->
    brun st ops = match s_brun (map elems st) ops with Some x => Val x | None => GoPanic end.
  Proof.
    induction ops as [|o ops IH]; intros st HF; simpl; auto.
    unfold Maps.bstep, Maps.s_bstep.
    pose proof (bnew_refines st o HF) as H.
    destruct (s_bnew (map elems st) o) as [l|]; simpl.
    - destruct H as (m & E & L & I'). rewrite E. simpl.
      assert (HF' : Forall Inv (st ++ [m])) by (apply Forall_app; split; auto).
      rewrite (IH _ HF'). rewrite map_app. simpl. rewrite L.
      destruct (s_brun (map elems st ++ [l]) ops); reflexivity.
    - rewrite H. reflexivity.
  Qed.

  (* on the reference an operation only adds a binding: every earlier binding keeps its content *)
  Lemma s_bstep_extends : forall st o st', s_bstep st o = Some st' -> exists l, st' = st ++ [l].
  Proof.
    intros st o st' H. unfold Maps.s_bstep in H. destruct (s_bnew st o) as [l|]; simpl in H; inversion H. eauto.
  Qed.
End MapsProofs.

(* ================================================================ instantiation with the model of object.Cmp *)
Definition vmap := gmap value value.

Theorem cmp_c_is_weak_order : forall x, wo_at cmp_c x.
Proof. exact cmp_c_wo. Qed.
