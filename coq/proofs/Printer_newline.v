(* C03, third sentence: normal-mode output ends with exactly one newline.
   For every tree without missing children whose printed token literals are non-empty and do not end with
   a newline (true of every token the lexer produces, except string contents, which are printed quoted). *)
From Coq Require Import List ZArith NArith Bool Lia.
From GrolGen Require Import Gen_Consts Gen_Prec.
From GrolModel Require Import Ast Parser Printer AstWf.
From GrolProofs Require Import Ast_ind.
Import ListNotations.

Definition good_endb (o : bytes) : bool := match rev o with c :: _ => negb (N.eqb c 10) | [] => false end.
Definition G (ps : pst) : Prop := good_endb (p_out ps) = true.

Fixpoint lits_ok (n : node) {struct n} : bool :=
  let g := fun (t : tok) => good_endb (tlit t) in
  match n with
  | NIdent t | NInt t _ | NFloat t _ | NBool t _ | NControl t | NComment t _ _ => g t
  | NString _ => true
  | NReturn t v => g t && match v with None => true | Some _ => we_with lits_ok v end
  | NStmts l => wl_with lits_ok l
  | NPrefix t r => g t && we_with lits_ok r
  | NPostfix t p => g t && g p
  | NInfix t l r => g t && we_with lits_ok l && match r with None => true | Some _ => we_with lits_ok r end
  | NFor _ c b => we_with lits_ok c && wb_with lits_ok b
  | NIf _ c a b => we_with lits_ok c && wb_with lits_ok a && match b with None => true | Some _ => wb_with lits_ok b end
  | NBuiltin t ps => g t && wol_with lits_ok ps
  | NFunc t nm ps b _ _ =>
    g t && match nm with Some m => g m | None => true end && wol_with lits_ok ps && wb_with lits_ok b
  | NCall _ f a => we_with lits_ok f && wol_with lits_ok a
  | NArray _ e => wol_with lits_ok e
  | NIndex t l i => g t && we_with lits_ok l && we_with lits_ok i
  | NMap _ ps => wp_with lits_ok ps
  | NMacro t ps b => g t && wol_with lits_ok ps && wb_with lits_ok b
  end.

(* ---------- the output only grows, and what Print appends decides how it ends ---------- *)
Lemma good_app o s : good_endb s = true -> good_endb (o ++ s) = true.
Proof.
  unfold good_endb. rewrite rev_app_distr. destruct (rev s) as [|c r]; [discriminate|]. cbn. auto.
Qed.
Lemma good_tabs o n : good_endb o = true -> good_endb (o ++ tabs n) = true.
Proof.
  intros H. unfold tabs. destruct (Z.to_nat n) as [|k]; [now rewrite app_nil_r|].
  apply good_app. unfold good_endb. induction k as [|k IH]; [reflexivity|].
  cbn [repeat rev] in *. destruct (rev (repeat 9%N k)) eqn:E; cbn in *; auto.
Qed.

Lemma Print_indent ps s : p_indent (Print ps s) = p_indent ps.
Proof.
  unfold Print. destruct (negb (p_compact ps) && negb (p_idone ps) && (1 <? p_indent ps))%Z; cbv zeta.
  - cbn [p_sep with_idone raw_write with_out p_indent]. destruct (p_sep ps); [destruct s as [|c s']|]; try reflexivity.
    destruct ((c =? 40)%N || (c =? 91)%N); reflexivity.
  - destruct (p_sep ps); [destruct s as [|c s']|]; try reflexivity.
    destruct ((c =? 40)%N || (c =? 91)%N); reflexivity.
Qed.
Lemma Print_G ps s : good_endb s = true -> G (Print ps s).
Proof.
  intros H. unfold G, Print. cbn [p_out with_last raw_write with_out].
  apply good_app. exact H.
Qed.
Lemma Println0_indent ps : p_indent (Println0 ps) = p_indent ps.
Proof. unfold Println0. destruct (p_compact ps); reflexivity. Qed.

Lemma long_sep_indent ps x i : p_indent (long_sep ps x i) = p_indent ps.
Proof.
  unfold long_sep. destruct (negb (Nat.eqb i 0) || (1 <? p_indent ps))%Z; [|reflexivity].
  destruct (keepSameLineAsPrevious x || _); [reflexivity|apply Println0_indent].
Qed.
Lemma open_paren_indent b ps : p_indent (open_paren b ps) = p_indent ps.
Proof. destruct b; [apply Print_indent|reflexivity]. Qed.
Lemma close_paren_indent b ps : p_indent (close_paren b ps) = p_indent ps.
Proof. destruct b; [apply Print_indent|reflexivity]. Qed.
Lemma close_paren_G b ps : G ps -> G (close_paren b ps).
Proof. destruct b; [intros _; now apply Print_G|auto]. Qed.
Lemma compact_Print ps s : p_compact (Print ps s) = p_compact ps.
Proof.
  unfold Print. destruct (negb (p_compact ps) && negb (p_idone ps) && (1 <? p_indent ps))%Z; cbv zeta.
  - cbn [p_sep with_idone raw_write with_out]. destruct (p_sep ps); [destruct s as [|c s']|]; try reflexivity.
    destruct ((c =? 40)%N || (c =? 91)%N); reflexivity.
  - destruct (p_sep ps); [destruct s as [|c s']|]; try reflexivity.
    destruct ((c =? 40)%N || (c =? 91)%N); reflexivity.
Qed.

Global Hint Resolve Print_G close_paren_G : pnl.
Global Hint Rewrite Print_indent Println0_indent long_sep_indent open_paren_indent close_paren_indent : pnl.

(* ---------- what printing a node preserves, and how its output ends ---------- *)
Definition Keep (ps ps' : pst) : Prop := p_indent ps' = p_indent ps /\ p_compact ps' = p_compact ps.
Definition E (n : node) : Prop :=
  lits_ok n = true -> forall ps ps', pp n ps = Some ps' -> Keep ps ps' /\ (0 < p_indent ps -> G ps')%Z.

Lemma Keep_refl ps : Keep ps ps. Proof. split; reflexivity. Qed.
Lemma Keep_trans a b c : Keep a b -> Keep b c -> Keep a c.
Proof. intros [H1 H2] [H3 H4]. split; congruence. Qed.
Lemma Keep_Print ps s : Keep ps (Print ps s).
Proof. split; [apply Print_indent|apply compact_Print]. Qed.
Lemma Keep_with_prec ps x : Keep ps (with_prec ps x). Proof. split; reflexivity. Qed.
Lemma Keep_open b ps : Keep ps (open_paren b ps).
Proof. destruct b; [apply Keep_Print|apply Keep_refl]. Qed.
Lemma Keep_close b ps : Keep ps (close_paren b ps).
Proof. destruct b; [apply Keep_Print|apply Keep_refl]. Qed.
Lemma Keep_with_prev ps x : Keep ps (with_prev ps x). Proof. split; reflexivity. Qed.
Lemma Keep_Println0 ps : Keep ps (Println0 ps).
Proof. unfold Println0. destruct (p_compact ps) eqn:Ec; split; cbn; auto. Qed.
Lemma Keep_long_sep ps x i : Keep ps (long_sep ps x i).
Proof.
  unfold long_sep. destruct (negb (Nat.eqb i 0) || (1 <? p_indent ps))%Z; [|apply Keep_refl].
  destruct (keepSameLineAsPrevious x || _); [split; reflexivity|apply Keep_Println0].
Qed.
Lemma Keep_compact_sep ps x i : Keep ps (compact_sep ps x i).
Proof.
  unfold compact_sep. destruct (Nat.eqb i 0); [apply Keep_refl|]. destruct (is_array x || _); split; reflexivity.
Qed.
Lemma G_with_prec ps x : G ps -> G (with_prec ps x). Proof. auto. Qed.
Lemma G_with_prev ps x : G ps -> G (with_prev ps x). Proof. auto. Qed.
Lemma Keep_pos a b : Keep a b -> (0 < p_indent a)%Z -> (0 < p_indent b)%Z.
Proof. intros [H _] P. now rewrite H. Qed.

(* an optional child that is present and satisfies E *)
Definition Eo (x : option node) : Prop := match x with Some m => E m | None => True end.

Lemma we_E x : Po E x -> we_with lits_ok x = true -> exists m, x = Some m /\ lits_ok m = true /\ E m.
Proof.
  destruct x as [m|]; cbn; [|discriminate]. intros HE H. apply andb_true_iff in H as [_ H]. eauto.
Qed.

Section Lists.
Lemma list_keep l : Pl E l -> wl_with lits_ok l = true ->
  forall first ps ps', pp_list_with pp l first ps = Some ps' -> Keep ps ps'.
Proof.
  induction 1 as [|x l Hx _ IH]; intros Hl first ps ps' H; cbn in H.
  - injection H as <-. apply Keep_refl.
  - cbn in Hl. apply andb_true_iff in Hl as [Hx' Hl]. destruct (we_E x Hx Hx') as (m & -> & Hm & Em).
    destruct (pp m _) as [ps2|] eqn:E2; [|discriminate].
    destruct (Em Hm _ _ E2) as [K _]. eapply Keep_trans; [|eapply IH; eassumption].
    eapply Keep_trans; [|exact K]. destruct first; [apply Keep_refl|apply Keep_Print].
Qed.
Lemma coma_keep l : Pol E l -> wol_with lits_ok l = true ->
  forall ps ps', coma_list_with pp l ps = Some ps' -> Keep ps ps'.
Proof.
  destruct l as [l|]; cbn; intros HP Hl ps ps' H; [eapply list_keep; eassumption|].
  injection H as <-. apply Keep_refl.
Qed.
Lemma map_keep sep l : Pp E l -> wp_with lits_ok l = true ->
  forall first ps ps', map_loop_with pp sep l first ps = Some ps' -> Keep ps ps'.
Proof.
  induction 1 as [|[k v] l [Hk Hv] _ IH]; intros Hl first ps ps' H; cbn in H.
  - injection H as <-. apply Keep_refl.
  - cbn in Hl. apply andb_true_iff in Hl as [Hl Hr]. apply andb_true_iff in Hl as [Hk' Hv'].
    cbn [fst snd] in *.
    destruct (we_E k Hk Hk') as (km & -> & Hkm & Ekm). destruct (we_E v Hv Hv') as (vm & -> & Hvm & Evm).
    match type of H with context [pp km ?p] => destruct (pp km p) as [ps2|] eqn:E2; [|discriminate]; set (p0 := p) in * end.
    match type of H with context [pp vm ?p] => destruct (pp vm p) as [ps3|] eqn:E3; [|discriminate]; set (p1 := p) in * end.
    destruct (Ekm Hkm _ _ E2) as [K2 _]. destruct (Evm Hvm _ _ E3) as [K3 _].
    assert (K0 : Keep ps p0) by (unfold p0; destruct first; [apply Keep_with_prec|
      eapply Keep_trans; [apply Keep_Print|apply Keep_with_prec]]).
    assert (K1 : Keep ps2 p1) by (unfold p1; eapply Keep_trans; [apply Keep_Print|apply Keep_with_prec]).
    eapply Keep_trans; [exact K0|]. eapply Keep_trans; [exact K2|]. eapply Keep_trans; [exact K1|].
    eapply Keep_trans; [exact K3|]. eapply IH; eassumption.
Qed.
End Lists.

Lemma stmts_keep l : Pl E l -> wl_with lits_ok l = true ->
  forall i ps ps', stmts_loop_with pp l i ps = Some ps' ->
  Keep ps ps' /\ ((0 < p_indent ps)%Z -> p_compact ps = false -> l <> [] -> G ps').
Proof.
  induction 1 as [|x l Hx _ IH]; intros Hl i ps ps' H; cbn [stmts_loop_with] in H.
  - injection H as <-. split; [apply Keep_refl|congruence].
  - cbn in Hl. apply andb_true_iff in Hl as [Hx' Hl]. destruct (we_E x Hx Hx') as (m & -> & Hm & Em).
    destruct (p_compact ps) eqn:Ec; cbn [andb] in H.
    + destruct (is_comment (Some m)).
      * destruct (IH Hl _ _ _ H) as [K _]. split; [exact K|congruence].
      * destruct (pp m _) as [ps2|] eqn:E2; [|discriminate].
        destruct (Em Hm _ _ E2) as [K2 _]. destruct (IH Hl _ _ _ H) as [K3 _].
        split; [|congruence].
        eapply Keep_trans; [apply Keep_compact_sep|]. eapply Keep_trans; [exact K2|].
        eapply Keep_trans; [apply Keep_with_prev|exact K3].
    + destruct (pp m _) as [ps2|] eqn:E2; [|discriminate].
      destruct (Em Hm _ _ E2) as [K2 G2]. destruct (IH Hl _ _ _ H) as [K3 G3].
      assert (K : Keep ps (with_prev ps2 (Some m))).
      { eapply Keep_trans; [apply Keep_long_sep|]. eapply Keep_trans; [exact K2|apply Keep_with_prev]. }
      split; [eapply Keep_trans; eassumption|]. intros Hpos _ _.
      destruct l as [|y l'].
      * cbn in H. injection H as <-. apply G_with_prev, G2. eapply Keep_pos; [apply Keep_long_sep|exact Hpos].
      * apply G3; [eapply Keep_pos; eassumption| |discriminate]. destruct K as [_ Kc]. now rewrite Kc.
Qed.

Ltac keep_chain :=
  repeat first [ assumption | apply Keep_refl | apply Keep_Print | apply Keep_with_prec | apply Keep_open | apply Keep_close
               | apply Keep_Println0 | (eapply Keep_trans; [eassumption|]) | (eapply Keep_trans; [|eassumption]) ].

Lemma pp_stmts_eq l ps : pp (NStmts l) ps = pp_stmts_with pp l ps. Proof. reflexivity. Qed.

Lemma stmts_E l : Pl E l -> E (NStmts l).
Proof.
  intros HP Hl ps ps' H. cbn [lits_ok] in Hl. rewrite pp_stmts_eq in H. unfold pp_stmts_with in H.
  cbv zeta in H.
  destruct (stmts_loop_with pp l 0 _) as [ps3|] eqn:E3; [|discriminate]. injection H as <-.
  destruct (stmts_keep l HP Hl _ _ _ E3) as [[K3i K3c] _].
  cbn [p_indent p_compact with_prec with_indent] in K3i, K3c.
  match goal with |- context [Print ?p5 _] => set (ps5 := p5) end.
  assert (K5 : p_compact ps5 = p_compact ps3) by (unfold ps5; cbn [p_compact with_prec with_indent]; apply (Keep_Println0 ps3)).
  assert (I5 : p_indent ps5 = (p_indent ps3 - 1)%Z).
  { unfold ps5. cbn [p_indent with_prec with_indent]. now destruct (p_compact ps3). }
  destruct (0 <? p_indent ps)%Z eqn:Epos.
  - (* a nested block: closes with a brace *)
    rewrite Print_indent in K3i. rewrite compact_Print in K3c.
    assert (Hi : p_indent ps5 = p_indent ps) by lia.
    assert (Ht : (p_indent (if p_compact ps3 then ps3 else raw_write ps3 [10%N]) - 1 = p_indent ps)%Z)
      by (destruct (p_compact ps3); cbn [p_indent raw_write with_out]; lia).
    rewrite Ht, Epos. split; [|intros _; now apply Print_G]. split; [now rewrite Print_indent|]. rewrite compact_Print. congruence.
  - (* the program itself *)
    assert (Hi : p_indent ps5 = p_indent ps) by lia.
    assert (Ht : (p_indent (if p_compact ps3 then ps3 else raw_write ps3 [10%N]) - 1 = p_indent ps)%Z)
      by (destruct (p_compact ps3); cbn [p_indent raw_write with_out]; lia).
    rewrite Ht, Epos. split; [|intros Hp; apply Z.ltb_ge in Epos; lia]. split; [exact Hi|congruence].
Qed.

Lemma block_E b : Po E b -> wb_with lits_ok b = true ->
  forall ps ps', pp_block_with pp b ps = Some ps' -> Keep ps ps' /\ (0 < p_indent ps -> G ps')%Z.
Proof.
  destruct b as [m|]; cbn [wb_with]; [|discriminate]. destruct m; try discriminate.
  intros HE Hl ps ps' H. cbn [pp_block_with] in H. rewrite <- pp_stmts_eq in H. exact (HE Hl _ _ H).
Qed.

Lemma opt_E x : Po E x -> we_with lits_ok x = true ->
  forall ps ps', pp_opt_with pp x ps = Some ps' -> Keep ps ps' /\ (0 < p_indent ps -> G ps')%Z.
Proof. intros HP H ps ps' Hp. destruct (we_E x HP H) as (m & -> & Hm & Em). exact (Em Hm _ _ Hp). Qed.

Ltac inv_some :=
  repeat match goal with
  | H : Some _ = Some _ |- _ => injection H as <-
  | H : None = Some _ |- _ => discriminate H
  | H : match ?e with Some _ => _ | None => None end = Some _ |- _ => destruct e eqn:?; [|discriminate H]
  | H : match ?e with Some _ => _ | None => _ end = Some _ |- _ => destruct e eqn:?
  end.

Ltac split_ands :=
  repeat match goal with H : _ && _ = true |- _ => apply andb_true_iff in H; destruct H end.

(* facts about the sub-runs *)
Ltac sub_facts :=
  repeat match goal with
  | HP : Po _ ?x, HW : we_with lits_ok ?x = true, HR : pp_opt_with pp ?x _ = Some _ |- _ =>
      let K := fresh "K" in let Gx := fresh "Gx" in destruct (opt_E x HP HW _ _ HR) as [K Gx]; clear HR
  | HP : Po _ ?b, HW : wb_with lits_ok ?b = true, HR : pp_block_with pp ?b _ = Some _ |- _ =>
      let K := fresh "K" in let Gx := fresh "Gx" in destruct (block_E b HP HW _ _ HR) as [K Gx]; clear HR
  | HP : Pol _ ?l, HW : wol_with lits_ok ?l = true, HR : coma_list_with pp ?l _ = Some _ |- _ =>
      let K := fresh "K" in pose proof (coma_keep l HP HW _ _ HR) as K; clear HR
  end.

Ltac pos_chain :=
  repeat match goal with
  | K : Keep ?a ?b, P : (0 < p_indent ?a)%Z |- _ =>
      lazymatch goal with Q : (0 < p_indent b)%Z |- _ => fail | _ => pose proof (Keep_pos a b K P) end
  end.

Ltac solve_keep :=
  repeat first
  [ apply Keep_refl
  | match goal with K : Keep ?y ?x |- Keep _ ?x => first [exact K | eapply Keep_trans; [|exact K]] end
  | match goal with |- Keep _ (Print _ _) => eapply Keep_trans; [|apply Keep_Print] end
  | match goal with |- Keep _ (with_prec _ _) => eapply Keep_trans; [|apply Keep_with_prec] end
  | match goal with |- Keep _ (open_paren _ _) => eapply Keep_trans; [|apply Keep_open] end
  | match goal with |- Keep _ (close_paren _ _) => eapply Keep_trans; [|apply Keep_close] end
  | match goal with |- Keep _ (if ?b then _ else _) => destruct b end
  | match goal with |- Keep _ (match ?l with [] => _ | _ :: _ => _ end) => destruct l end
  | match goal with |- Keep _ (match ?l with Some _ => _ | None => _ end) => destruct l end ].

Ltac solve_G q P :=
  repeat first
  [ apply Print_G; first [assumption | reflexivity]
  | apply close_paren_G
  | apply G_with_prec
  | match goal with Gx : _ -> G ?x |- G ?x => apply Gx; apply (Keep_pos q); [solve_keep|exact P] end
  | match goal with |- G (if ?b then _ else _) => destruct b end ].

Ltac finish_E q := split; [solve_keep | let P := fresh "P" in intros P; solve_G q P].

Lemma first_item_E c sl : Pl E sl -> wl_with lits_ok sl = true ->
  forall ps ps', first_item_with pp c sl ps = Some ps' -> Keep ps ps' /\ (0 < p_indent ps -> G ps')%Z.
Proof.
  induction 1 as [|x l Hx _ IH]; intros Hl ps ps' H; cbn [first_item_with] in H; [discriminate|].
  cbn in Hl. apply andb_true_iff in Hl as [Hx' Hl]. destruct (we_E x Hx Hx') as (m & -> & Hm & Em).
  destruct (c && is_comment (Some m)); [now apply IH|]. exact (Em Hm _ _ H).
Qed.

(* the induction needs, for a Statements node, the claim for its elements too (the else-if form prints one of them) *)
Definition E' (n : node) : Prop := E n /\ match n with NStmts l => Pl E l | _ => True end.
Lemma Po_weak x : Po E' x -> Po E x. Proof. destruct x; cbn; [intros [H _]; exact H|auto]. Qed.
Lemma Pl_weak l : Pl E' l -> Pl E l.
Proof. induction 1 as [|x l Hx _ IH]; constructor; [now apply Po_weak|exact IH]. Qed.
Lemma Pol_weak l : Pol E' l -> Pol E l. Proof. destruct l; cbn; [apply Pl_weak|auto]. Qed.
Lemma Pp_weak l : Pp E' l -> Pp E l.
Proof. induction 1 as [|kv l [Hk Hv] _ IH]; constructor; [split; now apply Po_weak|exact IH]. Qed.

Ltac weaken_IH :=
  repeat match goal with
  | H : Po (fun n => E' n) ?x |- _ => apply Po_weak in H
  | H : Po E' ?x |- _ => apply Po_weak in H
  | H : Pl _ ?x |- _ => lazymatch type of H with Pl E _ => fail | _ => apply Pl_weak in H end
  | H : Pol _ ?x |- _ => lazymatch type of H with Pol E _ => fail | _ => apply Pol_weak in H end
  | H : Pp _ ?x |- _ => lazymatch type of H with Pp E _ => fail | _ => apply Pp_weak in H end
  end.

Lemma E_all' : forall n, E' n.
Proof.
  induction n using node_ind2;
    (match goal with
     | |- E' (NStmts _) => idtac
     | |- E' (NIf _ _ _ _) => idtac
     | |- _ => weaken_IH
     end);
    (split; [|try exact I]); try (intros Hl q q' Hpp; cbn [lits_ok] in Hl; split_ands).
  1-3,5-7: (cbn [pp] in Hpp; injection Hpp as <-; split; [apply Keep_Print|intros _; apply Print_G; assumption]).
  - (* string *) cbn [pp] in Hpp. injection Hpp as <-. split; [apply Keep_Print|intros _; apply Print_G].
    unfold go_quote. rewrite app_assoc. now apply good_app.
  - (* return *) cbn [pp] in Hpp. destruct v as [m|]; cbv beta iota in *.
    + change (pp m ?p) with (pp_opt_with pp (Some m) p) in Hpp. sub_facts. finish_E q.
    + injection Hpp as <-. finish_E q.
  - (* stmts *) apply Pl_weak in H. now apply (stmts_E l).
  - apply Pl_weak in H. exact H.
  - (* prefix *) cbn [pp] in Hpp. cbv zeta in Hpp. inv_some. sub_facts. finish_E q.
  - (* postfix *) cbn [pp] in Hpp. destruct (needParen q t) as [[[np old] ps1]|] eqn:En; [|discriminate]. injection Hpp as <-.
    assert (K1 : Keep q ps1) by (unfold needParen in En; destruct (table_get _ _); [injection En as <- <- <-; apply Keep_with_prec|discriminate]).
    finish_E q.
  - (* infix *) cbn [pp] in Hpp. destruct (needParen q t) as [[[np old] ps1]|] eqn:En; [|discriminate].
    assert (K1 : Keep q ps1) by (unfold needParen in En; destruct (table_get _ _); [injection En as <- <- <-; apply Keep_with_prec|discriminate]).
    destruct r as [m|]; cbv beta iota zeta in *.
    + inv_some. sub_facts.
      match goal with H : pp m ?p = Some _ |- _ => change (pp m p) with (pp_opt_with pp (Some m) p) in H end.
      sub_facts. finish_E q.
    + inv_some. sub_facts. finish_E q.
  - (* for *) cbn [pp] in Hpp. inv_some. sub_facts. finish_E q.
  - (* if *)
    assert (Hb : match b with Some (NStmts sl) => Pl E sl | _ => True end).
    { destruct b as [[]|]; try exact I. cbn in H1. exact (proj2 H1). }
    weaken_IH. cbn [pp] in Hpp.
    destruct b as [alt|]; cbv beta iota zeta in *.
    + inv_some. sub_facts.
      destruct alt as [| | | | | | | |sl| | | | | | | | | | | |]; try discriminate.
      match goal with HW : wb_with lits_ok (Some (NStmts sl)) = true |- _ => cbn [wb_with] in HW end.
      destruct (else_shape_of _ (NStmts sl)) eqn:Esh; [discriminate| |].
      * (* else if: the first printed statement *)
        match goal with HW : wl_with lits_ok sl = true |- _ =>
          destruct (first_item_E _ sl Hb HW _ _ Hpp) as [K2 G2] end.
        finish_E q.
      * match goal with HW : wl_with lits_ok sl = true, HP : Po E (Some (NStmts sl)) |- _ =>
          destruct (HP HW _ _ Hpp) as [K2 G2] end.
        finish_E q.
    + inv_some. sub_facts. finish_E q.
  - (* builtin *) cbn [pp] in Hpp. inv_some. sub_facts. finish_E q.
  - (* func *) cbn [pp] in Hpp. destruct l; cbv beta iota zeta in *; inv_some; sub_facts; finish_E q.
  - (* call *) cbn [pp] in Hpp. cbv zeta in Hpp. inv_some. sub_facts. finish_E q.
  - (* array *) cbn [pp] in Hpp. inv_some. sub_facts. finish_E q.
  - (* index *) cbn [pp] in Hpp. destruct (needParen q t) as [[[np old] ps1]|] eqn:En; [|discriminate].
    assert (K1 : Keep q ps1) by (unfold needParen in En; destruct (table_get _ _); [injection En as <- <- <-; apply Keep_with_prec|discriminate]).
    cbv zeta in Hpp. inv_some. sub_facts. finish_E q.
  - (* map *) cbn [pp] in Hpp. inv_some.
    match goal with HR : map_loop_with pp _ ps _ _ = Some _ |- _ => pose proof (map_keep _ ps H Hl _ _ _ HR) as K end.
    finish_E q.
  - (* macro *) cbn [pp] in Hpp. inv_some. sub_facts. finish_E q.
Qed.

Theorem E_all : forall n, E n.
Proof. intros n. apply E_all'. Qed.

(* ---------- the program ---------- *)
Theorem normal_output_ends_with_one_newline : forall allparens stmts out,
  lits_ok (NStmts stmts) = true ->
  print_program false allparens stmts = Some out ->
  exists o, out = o ++ [10%N] /\ ((stmts = [] /\ o = []) \/ good_endb o = true).
Proof.
  intros ap stmts out Hl H. unfold print_program in H.
  destruct (pp (NStmts stmts) (new_pst false ap)) as [ps|] eqn:Ep; [|discriminate]. injection H as <-.
  rewrite pp_stmts_eq in Ep. unfold pp_stmts_with in Ep. cbv zeta in Ep.
  change (0 <? p_indent (new_pst false ap))%Z with false in Ep. cbv iota in Ep.
  destruct (stmts_loop_with pp stmts 0 _) as [ps3|] eqn:E3; [|discriminate]. injection Ep as <-.
  cbn [lits_ok] in Hl.
  assert (HP : Pl E stmts) by (clear; induction stmts as [|[m|] l IH]; constructor; auto; [apply E_all|exact I]).
  destruct (stmts_keep stmts HP Hl _ _ _ E3) as [[Ki Kc] G3].
  cbn [p_indent p_compact with_prec with_indent new_pst] in Ki, Kc, G3.
  exists (p_out ps3). split.
  - assert (Hc : p_compact ps3 = false) by exact Kc.
    assert (Hi : p_indent ps3 = 1%Z) by exact Ki.
    unfold Println0. rewrite Hc. cbn [p_indent with_prec with_indent with_idone raw_write with_out p_out].
    rewrite Hi. reflexivity.
  - destruct stmts as [|x l]; [left; split; [reflexivity|]|right].
    + cbn in E3. injection E3 as <-. reflexivity.
    + apply G3; [lia|reflexivity|discriminate].
Qed.
