(* C08, termination: the parser model never runs out of fuel when started with default_fuel (4 per token
   + 64) on a token list whose end-marker-typed tokens form a suffix (true of every lexer output).
   Measure: the number of tokens not yet consumed that are not end markers. *)
From Coq Require Import List ZArith NArith Bool String Lia.
From GrolGen Require Import Gen_Consts Gen_Prec Gen_ParserTables.
From GrolModel Require Import Ast Parser.
From GrolProofs Require Import Parser_eqns.
Import ListNotations.
Local Open Scope Z_scope.

(* ---------- end markers, the measure, and the shape of the remaining input ---------- *)
Definition isE (t : ptok) : bool := Z.eqb (pty t) token_EOF || Z.eqb (pty t) token_EOL.
Definition cnt (l : list ptok) : nat := List.length (filter (fun t => negb (isE t)) l).
Definition mu (s : pstate) : nat := cnt (ps_cur s :: ps_peek s :: ps_rest s).

(* once an end marker, always an end marker *)
Fixpoint closed (e : ptok) (l : list ptok) : Prop :=
  match l with
  | [] => True
  | x :: r => (isE x = true -> cnt r = 0%nat /\ isE e = true) /\ closed e r
  end.
Definition TC (s : pstate) : Prop := closed (ps_end s) (ps_cur s :: ps_peek s :: ps_rest s) /\ isE (ps_end s) = true.

Lemma cnt_cons x l : cnt (x :: l) = ((if isE x then 0 else 1) + cnt l)%nat.
Proof. unfold cnt. cbn [filter]. destruct (isE x); reflexivity. Qed.

Lemma TC_next s : TC s -> TC (nextToken s).
Proof.
  unfold TC, nextToken. intros [H He]. destruct (ps_rest s) as [|t r]; cbn [ps_cur ps_peek ps_rest ps_end closed] in *.
  - destruct H as (_ & (Hp & _)). split; [|exact He]. repeat split; intros; auto.
    + rewrite cnt_cons, He. reflexivity.
  - destruct H as (_ & H). split; [exact H|exact He].
Qed.
Lemma TC_cont s : TC s -> TC (set_cont s). Proof. auto. Qed.
Lemma TC_err e s : TC s -> TC (add_err e s). Proof. auto. Qed.

Lemma mu_next_le s : TC s -> (mu (nextToken s) <= mu s)%nat.
Proof.
  intros [_ He]. unfold mu, nextToken. destruct (ps_rest s) as [|t r]; cbn [ps_cur ps_peek ps_rest].
  - rewrite !cnt_cons. rewrite He. cbn [cnt filter List.length]. destruct (isE (ps_cur s)), (isE (ps_peek s)); cbn; lia.
  - rewrite !cnt_cons. destruct (isE (ps_cur s)); lia.
Qed.
Lemma mu_cont s : mu (set_cont s) = mu s. Proof. reflexivity. Qed.
Lemma mu_err e s : mu (add_err e s) = mu s. Proof. reflexivity. Qed.

(* consuming a current token that is not an end marker *)
Lemma mu_next_lt s : TC s -> isE (ps_cur s) = false -> (mu (nextToken s) + 1 <= mu s)%nat.
Proof.
  intros [H He] Hc. unfold mu, nextToken. destruct (ps_rest s) as [|t r]; cbn [ps_cur ps_peek ps_rest].
  - rewrite !cnt_cons. rewrite Hc, He. cbn [cnt filter List.length]. lia.
  - rewrite !cnt_cons. rewrite Hc. lia.
Qed.

(* a current end marker means nothing is left *)
Lemma mu_end s : TC s -> isE (ps_cur s) = true -> mu s = 0%nat /\ isE (ps_peek s) = true.
Proof.
  intros [H He] Hc. cbn [closed] in H. destruct H as [H0 _]. specialize (H0 Hc). destruct H0 as [H0 _].
  unfold mu. rewrite cnt_cons, Hc. split; [lia|]. rewrite cnt_cons in H0. destruct (isE (ps_peek s)); [reflexivity|lia].
Qed.
Lemma peek_nonE_cur s : TC s -> isE (ps_peek s) = false -> isE (ps_cur s) = false.
Proof. intros H Hp. destruct (isE (ps_cur s)) eqn:E; [|reflexivity]. destruct (mu_end s H E) as [_ X]. congruence. Qed.

(* ---------- parsing only consumes: the state after any function is "below" the state before ---------- *)
Definition Le (s s' : pstate) : Prop := TC s -> TC s' /\ (mu s' <= mu s)%nat.
Lemma Le_refl s : Le s s. Proof. intros H. split; [exact H|lia]. Qed.
Lemma Le_trans a b c : Le a b -> Le b c -> Le a c.
Proof. intros H1 H2 Ha. destruct (H1 Ha) as [Hb L1]. destruct (H2 Hb) as [Hc L2]. split; [exact Hc|lia]. Qed.
Lemma Le_next s : Le s (nextToken s).
Proof. intros H. split; [now apply TC_next|now apply mu_next_le]. Qed.
Lemma Le_cont s : Le s (set_cont s). Proof. intros H. split; [exact H|reflexivity]. Qed.
Lemma Le_err e s : Le s (add_err e s). Proof. intros H. split; [exact H|reflexivity]. Qed.
Lemma Le_expectPeek s t b s2 : expectPeek s t = (b, s2) -> Le s s2.
Proof.
  unfold expectPeek. destruct (peekIs s t); [|destruct (peekIs s token_EOL)]; intros [= <- <-];
    [apply Le_next|apply Le_cont|apply Le_err].
Qed.

Ltac solve_Le :=
  repeat first
  [ apply Le_refl
  | match goal with K : Le ?y ?x |- Le _ ?x => first [exact K | eapply Le_trans; [|exact K]] end
  | match goal with |- Le _ (nextToken _) => eapply Le_trans; [|apply Le_next] end
  | match goal with |- Le _ (set_cont _) => eapply Le_trans; [|apply Le_cont] end
  | match goal with |- Le _ (add_err _ _) => eapply Le_trans; [|apply Le_err] end
  | match goal with |- Le _ (if ?b then _ else _) => destruct b end ].

Ltac dec1 :=
  match goal with
  | H : ROk _ _ = ROk _ _ |- _ => injection H as <- <-
  | H : RPanic _ = ROk _ _ |- _ => discriminate H
  | H : RFuel = ROk _ _ |- _ => discriminate H
  | H : (if ?b then _ else _) = ROk _ _ |- _ => destruct b eqn:?
  | H : (let '(_, _) := ?p in _) = ROk _ _ |- _ => destruct p eqn:?
  | H : (match ?e with Some _ => _ | None => _ end) = ROk _ _ |- _ => destruct e eqn:?
  | H : (match ?r with ROk _ _ => _ | RPanic _ => _ | RFuel => _ end) = ROk _ _ |- _ =>
      destruct r eqn:?; [|discriminate H|discriminate H]
  | Hq : (if ?b then (_, _) else (_, _)) = (_, _) |- _ => destruct b eqn:?; injection Hq as <- <-
  end.
Ltac dec := cbv zeta in *; repeat dec1.

Section Mono.
Variable conv : numconv.

Lemma Le_float s x s1 : parseFloatLiteral conv s = ROk x s1 -> Le s s1.
Proof. unfold parseFloatLiteral. destruct (conv_float conv _); intros [= <- <-]; solve_Le. Qed.
Lemma Le_int s x s1 : parseIntegerLiteral conv s = ROk x s1 -> Le s s1.
Proof. unfold parseIntegerLiteral. destruct (conv_int conv _); [intros [= <- <-]; solve_Le|apply Le_float]. Qed.
Lemma Le_ident s x s1 : parseIdentifier s = ROk x s1 -> Le s s1.
Proof. unfold parseIdentifier. destruct (table_get postfix_fns _); intros [= <- <-]; cbv zeta; solve_Le. Qed.
Lemma Le_comment s x s1 : parseComment s = ROk x s1 -> Le s s1.
Proof.
  unfold parseComment. cbv zeta. destruct (_ =? token_BLOCKCOMMENT).
  - destruct (ends_with_star_slash _); intros [= <- <-]; solve_Le.
  - destruct (_ && _ && _); [discriminate|]. intros [= <- <-]; solve_Le.
Qed.
Lemma Le_funcParamsLoop f : forall acc s ids s2, funcParamsLoop f acc s = Some (ids, s2) -> Le s s2.
Proof.
  induction f as [|f IH]; intros acc s ids s2 H; [discriminate|]. cbn [funcParamsLoop] in H.
  destruct (peekIs s token_COMMA).
  - cbv zeta in H. apply IH in H. solve_Le.
  - injection H as <- <-. solve_Le.
Qed.
Lemma Le_funcParams f s pv s3 : parseFunctionParameters f s = ROk pv s3 -> Le s s3.
Proof.
  unfold parseFunctionParameters. destruct (peekIs s token_RPAREN).
  - intros [= <- <-]. solve_Le.
  - cbv zeta. destruct (funcParamsLoop f _ (nextToken s)) as [[ids s2]|] eqn:E; [|discriminate].
    apply Le_funcParamsLoop in E.
    destruct (expectPeek s2 token_RPAREN) as [ok s3'] eqn:Ex. apply Le_expectPeek in Ex.
    destruct ok; intros [= <- <-]; solve_Le.
Qed.

Definition LE f := forall prec s x s1, parseExpression conv f prec s = ROk x s1 -> Le s s1.
Definition LL f := forall prec left s x s1, exprLoop conv f prec left s = ROk x s1 -> Le s s1.
Definition LP f := forall fn s x s1, prefixFn conv f fn s = ROk x s1 -> Le s s1.
Definition LI f := forall fn left s x s1, infixFn conv f fn left s = ROk x s1 -> Le s s1.
Definition LM f := forall left more s x s1, parseLambdaMulti conv f left more s = ROk x s1 -> Le s s1.
Definition LG f := forall s x s1, parseGroupedExpression conv f s = ROk x s1 -> Le s s1.
Definition LIf f := forall s x s1, parseIfExpression conv f s = ROk x s1 -> Le s s1.
Definition LB f := forall s x s1, parseBlockStatement conv f s = ROk x s1 -> Le s s1.
Definition LBL f := forall acc s x s1, blockLoop conv f acc s = ROk x s1 -> Le s s1.
Definition LS f := forall s x s1, parseStatement conv f s = ROk x s1 -> Le s s1.
Definition LEL f := forall endt s x s1, parseExpressionList conv f endt s = ROk x s1 -> Le s s1.
Definition LELL f := forall endt acc s x s1, exprListLoop conv f endt acc s = ROk x s1 -> Le s s1.
Definition LML f := forall t acc s x s1, parseMapLoop conv f t acc s = ROk x s1 -> Le s s1.
Definition LAll f := LE f /\ LL f /\ LP f /\ LI f /\ LM f /\ LG f /\ LIf f /\ LB f /\ LBL f /\ LS f /\ LEL f /\ LELL f /\ LML f.

Ltac le_facts :=
  match goal with
  | HE : LE _, HL : LL _, HP : LP _, HI : LI _, HM : LM _, HG : LG _, HIf : LIf _, HB : LB _, HBL : LBL _,
    HS : LS _, HEL : LEL _, HELL : LELL _, HML : LML _ |- _ =>
    repeat match goal with
    | E : parseExpression conv _ _ _ = ROk _ _ |- _ => apply HE in E
    | E : exprLoop conv _ _ _ _ = ROk _ _ |- _ => apply HL in E
    | E : prefixFn conv _ _ _ = ROk _ _ |- _ => apply HP in E
    | E : infixFn conv _ _ _ _ = ROk _ _ |- _ => apply HI in E
    | E : parseLambdaMulti conv _ _ _ _ = ROk _ _ |- _ => apply HM in E
    | E : parseGroupedExpression conv _ _ = ROk _ _ |- _ => apply HG in E
    | E : parseIfExpression conv _ _ = ROk _ _ |- _ => apply HIf in E
    | E : parseBlockStatement conv _ _ = ROk _ _ |- _ => apply HB in E
    | E : blockLoop conv _ _ _ = ROk _ _ |- _ => apply HBL in E
    | E : parseStatement conv _ _ = ROk _ _ |- _ => apply HS in E
    | E : parseExpressionList conv _ _ _ = ROk _ _ |- _ => apply HEL in E
    | E : exprListLoop conv _ _ _ _ = ROk _ _ |- _ => apply HELL in E
    | E : parseMapLoop conv _ _ _ _ = ROk _ _ |- _ => apply HML in E
    | E : parseIdentifier _ = ROk _ _ |- _ => apply Le_ident in E
    | E : parseIntegerLiteral conv _ = ROk _ _ |- _ => apply Le_int in E
    | E : parseFloatLiteral conv _ = ROk _ _ |- _ => apply Le_float in E
    | E : parseComment _ = ROk _ _ |- _ => apply Le_comment in E
    | E : parseFunctionParameters _ _ = ROk _ _ |- _ => apply Le_funcParams in E
    | E : expectPeek _ _ = (_, _) |- _ => apply Le_expectPeek in E
    end
  end.

Ltac use_all H :=
  destruct H as (HE & HL & HP & HI & HM & HG & HIf & HB & HBL & HS & HEL & HELL & HML).

Ltac lstep eqn :=
  let IH := fresh "IH" in
  intros IH; use_all IH; intros;
  match goal with H : _ = ROk _ _ |- _ => rewrite eqn in H end;
  dec; le_facts; solve_Le.

Lemma LE_step f : LAll f -> LE (S f). Proof. unfold LE. lstep parseExpression_S. Qed.
Lemma LL_step f : LAll f -> LL (S f). Proof. unfold LL. lstep exprLoop_S. Qed.
Lemma LI_step f : LAll f -> LI (S f). Proof. unfold LI. lstep infixFn_S. Qed.
Lemma LM_step f : LAll f -> LM (S f). Proof. unfold LM. lstep parseLambdaMulti_S. Qed.
Lemma LG_step f : LAll f -> LG (S f). Proof. unfold LG. lstep parseGroupedExpression_S. Qed.
Lemma LIf_step f : LAll f -> LIf (S f). Proof. unfold LIf. lstep parseIfExpression_S. Qed.
Lemma LB_step f : LAll f -> LB (S f). Proof. unfold LB. lstep parseBlockStatement_S. Qed.
Lemma LBL_step f : LAll f -> LBL (S f). Proof. unfold LBL. lstep blockLoop_S. Qed.
Lemma LS_step f : LAll f -> LS (S f). Proof. unfold LS. lstep parseStatement_S. Qed.
Lemma LEL_step f : LAll f -> LEL (S f). Proof. unfold LEL. lstep parseExpressionList_S. Qed.
Lemma LELL_step f : LAll f -> LELL (S f). Proof. unfold LELL. lstep exprListLoop_S. Qed.
Lemma LML_step f : LAll f -> LML (S f). Proof. unfold LML. lstep parseMapLoop_S. Qed.
Lemma LP_step f : LAll f -> LP (S f). Proof. unfold LP. lstep prefixFn_S. Qed.

Lemma le_all : forall f, LAll f.
Proof.
  induction f as [|f IH].
  - unfold LAll. repeat (match goal with |- _ /\ _ => split end);
      unfold LE, LL, LP, LI, LM, LG, LIf, LB, LBL, LS, LEL, LELL, LML; intros; discriminate.
  - unfold LAll. repeat (match goal with |- _ /\ _ => split end).
    + apply LE_step, IH. + apply LL_step, IH. + apply LP_step, IH. + apply LI_step, IH.
    + apply LM_step, IH. + apply LG_step, IH. + apply LIf_step, IH. + apply LB_step, IH.
    + apply LBL_step, IH. + apply LS_step, IH. + apply LEL_step, IH. + apply LELL_step, IH.
    + apply LML_step, IH.
Qed.
End Mono.

(* ---------- no function runs out of fuel: 4 units per remaining token plus a constant ---------- *)
Lemma tbl_E :
  table_get prefix_fns token_EOL = None /\ table_get prefix_fns token_EOF = None /\
  table_get infix_fns token_EOL = None /\ table_get infix_fns token_EOF = None.
Proof. vm_compute. repeat split. Qed.

Lemma isE_false_iff t : isE t = false <-> (pty t <> token_EOF /\ pty t <> token_EOL).
Proof.
  unfold isE. rewrite orb_false_iff, !Z.eqb_neq. tauto.
Qed.
Lemma prefix_nonE s fn : table_get prefix_fns (pty (ps_cur s)) = Some fn -> isE (ps_cur s) = false.
Proof.
  intros H. apply isE_false_iff. destruct tbl_E as (A & B & _). split; intros E; rewrite E in H; congruence.
Qed.
Lemma infix_nonE s fn : table_get infix_fns (pty (ps_peek s)) = Some fn -> isE (ps_peek s) = false.
Proof.
  intros H. apply isE_false_iff. destruct tbl_E as (_ & _ & A & B). split; intros E; rewrite E in H; congruence.
Qed.
Lemma peekIs_nonE s t : peekIs s t = true -> t <> token_EOF -> t <> token_EOL -> isE (ps_peek s) = false.
Proof. unfold peekIs. intros H A B. apply Z.eqb_eq in H. apply isE_false_iff. rewrite H. auto. Qed.
Lemma curIs_nonE s t : curIs s t = true -> t <> token_EOF -> t <> token_EOL -> isE (ps_cur s) = false.
Proof. unfold curIs. intros H A B. apply Z.eqb_eq in H. apply isE_false_iff. rewrite H. auto. Qed.
Lemma cur_next s : ps_cur (nextToken s) = ps_peek s.
Proof. unfold nextToken. now destruct (ps_rest s). Qed.
Lemma isE_cur_next s : isE (ps_cur (nextToken s)) = isE (ps_peek s).
Proof. now rewrite cur_next. Qed.

(* the two ways a state is reached from an earlier one, as inequalities on the measure *)
Lemma step_le s : TC s -> TC (nextToken s) /\ (mu (nextToken s) <= mu s)%nat.
Proof. intros H. split; [now apply TC_next|now apply mu_next_le]. Qed.
Lemma step_lt s : TC s -> isE (ps_cur s) = false -> TC (nextToken s) /\ (mu (nextToken s) + 1 <= mu s)%nat.
Proof. intros H Hc. split; [now apply TC_next|now apply mu_next_lt]. Qed.
Lemma step_peek s : TC s -> isE (ps_peek s) = false -> TC (nextToken s) /\ (mu (nextToken s) + 1 <= mu s)%nat /\ isE (ps_cur (nextToken s)) = false.
Proof.
  intros H Hp. pose proof (peek_nonE_cur s H Hp) as Hc. destruct (step_lt s H Hc) as [A B].
  split; [exact A|]. split; [exact B|]. now rewrite isE_cur_next.
Qed.
Lemma expectPeek_ok s t s2 : expectPeek s t = (true, s2) -> t <> token_EOF -> t <> token_EOL -> TC s ->
  TC s2 /\ (mu s2 + 1 <= mu s)%nat /\ isE (ps_cur s2) = false.
Proof.
  unfold expectPeek. destruct (peekIs s t) eqn:E; [|destruct (peekIs s token_EOL); discriminate].
  intros [= <-] A B H. apply step_peek; [exact H|now apply (peekIs_nonE s t)].
Qed.

Ltac tokneq := let E := fresh in intros E; vm_compute in E; discriminate E.

Section NoFuel.
Variable conv : numconv.
Notation pe := (parseExpression conv).
Notation el := (exprLoop conv).

Definition NE f := forall prec s, TC s -> (4 * mu s + 10 <= f)%nat -> pe f prec s <> RFuel.
Definition NL f := forall prec left s, TC s -> (4 * mu s + 9 <= f)%nat -> el f prec left s <> RFuel.
Definition NP f := forall fn s, TC s -> isE (ps_cur s) = false -> (4 * mu s + 9 <= f)%nat -> prefixFn conv f fn s <> RFuel.
Definition NI f := forall fn left s, TC s -> isE (ps_cur s) = false -> (4 * mu s + 12 <= f)%nat -> infixFn conv f fn left s <> RFuel.
Definition NM f := forall left more s, TC s -> isE (ps_cur s) = false -> (4 * mu s + 9 <= f)%nat ->
  parseLambdaMulti conv f left more s <> RFuel.
Definition NG f := forall s, TC s -> isE (ps_cur s) = false -> (4 * mu s + 8 <= f)%nat -> parseGroupedExpression conv f s <> RFuel.
Definition NIf f := forall s, TC s -> isE (ps_cur s) = false -> (4 * mu s + 8 <= f)%nat -> parseIfExpression conv f s <> RFuel.
Definition NB f := forall s, TC s -> isE (ps_cur s) = false -> (4 * mu s + 12 <= f)%nat -> parseBlockStatement conv f s <> RFuel.
Definition NBL f := forall acc s, TC s -> (4 * mu s + 12 <= f)%nat -> blockLoop conv f acc s <> RFuel.
Definition NS f := forall s, TC s -> (4 * mu s + 11 <= f)%nat -> parseStatement conv f s <> RFuel.
Definition NEL f := forall endt s, TC s -> isE (ps_cur s) = false -> (4 * mu s + 8 <= f)%nat ->
  parseExpressionList conv f endt s <> RFuel.
Definition NELL f := forall endt acc s, TC s -> (4 * mu s + 8 <= f)%nat -> exprListLoop conv f endt acc s <> RFuel.
Definition NML f := forall t acc s, TC s -> (isE (ps_cur s) = false \/ peekIs s token_RBRACE = true) ->
  (4 * mu s + 8 <= f)%nat -> parseMapLoop conv f t acc s <> RFuel.
Definition NAll f := NE f /\ NL f /\ NP f /\ NI f /\ NM f /\ NG f /\ NIf f /\ NB f /\ NBL f /\ NS f /\ NEL f /\ NELL f /\ NML f.

(* walk the body: every branch either returns, panics, or runs out of fuel in a sub-call *)
Ltac walk :=
  cbv zeta;
  repeat match goal with
  | |- ROk _ _ <> RFuel => discriminate
  | |- RPanic _ <> RFuel => discriminate
  | |- (if ?b then _ else _) <> RFuel => destruct b eqn:?
  | |- (let '(_, _) := ?p in _) <> RFuel => destruct p eqn:?
  | |- (match ?e with Some _ => _ | None => _ end) <> RFuel => destruct e eqn:?
  | |- (match ?r with ROk _ _ => _ | RPanic w => RPanic w | RFuel => RFuel end) <> RFuel =>
      let E := fresh "E" in destruct r eqn:E; [ | discriminate | exfalso ]
  | |- _ <> RFuel => let E := fresh "E" in intro E
  end.

(* saturate the context with what is known about every state that occurs *)
Ltac known_TC x := match goal with _ : TC x |- _ => idtac end.
Ltac unknown_TC x := lazymatch goal with _ : TC x |- _ => fail | _ => idtac end.
Lemma mu_pos s : isE (ps_cur s) = false -> (1 <= mu s)%nat.
Proof. intros H. unfold mu. rewrite cnt_cons, H. lia. Qed.
Lemma curIs_isE s : curIs s token_EOF = false -> curIs s token_EOL = false -> isE (ps_cur s) = false.
Proof. unfold curIs, isE. intros -> ->. reflexivity. Qed.

Ltac sat1 :=
  match goal with
  (* normalise branch conditions *)
  | H : (if ?b then (_, _) else (_, _)) = (_, _) |- _ => destruct b eqn:?; injection H as <- <-
  | H : _ && _ = true |- _ => apply andb_true_iff in H; destruct H
  | H : negb ?b = false |- _ => apply negb_false_iff in H; try subst b
  | H : negb ?b = true |- _ => apply negb_true_iff in H; try subst b
  | H : _ \/ false = true |- _ => destruct H as [H|H]; [|discriminate H]
  | H : _ || _ = false |- _ => apply orb_false_iff in H; destruct H
  | H1 : curIs ?y token_EOF = false, H2 : curIs ?y token_EOL = false |- _ =>
      lazymatch goal with _ : isE (ps_cur y) = false |- _ => fail | _ => idtac end;
      pose proof (curIs_isE y H1 H2)
  | H : isE (ps_cur ?y) = false |- _ =>
      lazymatch goal with _ : (1 <= mu y)%nat |- _ => fail | _ => idtac end;
      pose proof (mu_pos y H)
  (* end-marker facts from branch conditions *)
  | H : peekIs ?y ?t = true |- _ =>
      lazymatch goal with _ : isE (ps_peek y) = false |- _ => fail | _ => idtac end;
      pose proof (peekIs_nonE y t H ltac:(tokneq) ltac:(tokneq))
  | H : table_get infix_fns (pty (ps_peek ?y)) = Some _ |- _ =>
      lazymatch goal with _ : isE (ps_peek y) = false |- _ => fail | _ => idtac end;
      pose proof (infix_nonE y _ H)
  | H : table_get prefix_fns (pty (ps_cur ?y)) = Some _ |- _ =>
      lazymatch goal with _ : isE (ps_cur y) = false |- _ => fail | _ => idtac end;
      pose proof (prefix_nonE y _ H)
  | H : isE (ps_peek ?y) = false, T : TC ?y |- _ =>
      lazymatch goal with _ : isE (ps_cur y) = false |- _ => fail | _ => idtac end;
      pose proof (peek_nonE_cur y T H)
  (* results of sub-runs *)
  | E : _ = ROk _ ?z |- _ =>
      unknown_TC z;
      let L := fresh "L" in
      first [ pose proof (proj1 (le_all conv _) _ _ _ _ E) as L
            | pose proof (proj1 (proj2 (le_all conv _)) _ _ _ _ _ E) as L
            | pose proof (proj1 (proj2 (proj2 (le_all conv _))) _ _ _ _ E) as L
            | pose proof (proj1 (proj2 (proj2 (proj2 (le_all conv _)))) _ _ _ _ _ E) as L
            | pose proof (proj1 (proj2 (proj2 (proj2 (proj2 (le_all conv _))))) _ _ _ _ _ E) as L
            | pose proof (proj1 (proj2 (proj2 (proj2 (proj2 (proj2 (le_all conv _)))))) _ _ _ E) as L
            | pose proof (proj1 (proj2 (proj2 (proj2 (proj2 (proj2 (proj2 (le_all conv _))))))) _ _ _ E) as L
            | pose proof (proj1 (proj2 (proj2 (proj2 (proj2 (proj2 (proj2 (proj2 (le_all conv _)))))))) _ _ _ E) as L
            | pose proof (proj1 (proj2 (proj2 (proj2 (proj2 (proj2 (proj2 (proj2 (proj2 (le_all conv _))))))))) _ _ _ _ E) as L
            | pose proof (proj1 (proj2 (proj2 (proj2 (proj2 (proj2 (proj2 (proj2 (proj2 (proj2 (le_all conv _)))))))))) _ _ _ E) as L
            | pose proof (proj1 (proj2 (proj2 (proj2 (proj2 (proj2 (proj2 (proj2 (proj2 (proj2 (proj2 (le_all conv _))))))))))) _ _ _ _ E) as L
            | pose proof (proj1 (proj2 (proj2 (proj2 (proj2 (proj2 (proj2 (proj2 (proj2 (proj2 (proj2 (proj2 (le_all conv _)))))))))))) _ _ _ _ _ E) as L
            | pose proof (proj2 (proj2 (proj2 (proj2 (proj2 (proj2 (proj2 (proj2 (proj2 (proj2 (proj2 (proj2 (le_all conv _)))))))))))) _ _ _ _ _ E) as L
            | pose proof (Le_funcParams _ _ _ _ E) as L ];
      match type of L with Le ?a _ => known_TC a end;
      match type of L with Le ?a _ => match goal with T : TC a |- _ => destruct (L T) as [? ?] end end; clear L
  | E : expectPeek ?y ?t = (true, ?z), T : TC ?y |- _ =>
      unknown_TC z; destruct (expectPeek_ok y t z E ltac:(tokneq) ltac:(tokneq) T) as (? & ? & ?)
  | E : expectPeek ?y ?t = (false, ?z), T : TC ?y |- _ =>
      unknown_TC z; destruct (Le_expectPeek y t _ z E T) as [? ?]
  (* a token consumed *)
  | T : TC ?y, C : isE (ps_cur ?y) = false |- context [nextToken ?y] =>
      unknown_TC (nextToken y); destruct (step_lt y T C) as [? ?]
  | T : TC ?y, C : isE (ps_cur ?y) = false, _ : context [nextToken ?y] |- _ =>
      unknown_TC (nextToken y); destruct (step_lt y T C) as [? ?]
  | T : TC ?y |- context [nextToken ?y] => unknown_TC (nextToken y); destruct (step_le y T) as [? ?]
  | T : TC ?y, _ : context [nextToken ?y] |- _ => unknown_TC (nextToken y); destruct (step_le y T) as [? ?]
  | H : isE (ps_peek ?y) = false |- _ =>
      lazymatch goal with _ : isE (ps_cur (nextToken y)) = false |- _ => fail | _ => idtac end;
      assert (isE (ps_cur (nextToken y)) = false) by (rewrite isE_cur_next; exact H)
  end.
Ltac sat := repeat sat1.

Lemma ident_nofuel s : parseIdentifier s <> RFuel.
Proof. unfold parseIdentifier. destruct (table_get postfix_fns _); discriminate. Qed.
Lemma float_nofuel s : parseFloatLiteral conv s <> RFuel.
Proof. unfold parseFloatLiteral. destruct (conv_float conv _); discriminate. Qed.
Lemma int_nofuel s : parseIntegerLiteral conv s <> RFuel.
Proof. unfold parseIntegerLiteral. destruct (conv_int conv _); [discriminate|apply float_nofuel]. Qed.
Lemma comment_nofuel s : parseComment s <> RFuel.
Proof.
  unfold parseComment. cbv zeta. destruct (_ =? token_BLOCKCOMMENT); [destruct (ends_with_star_slash _); discriminate|].
  destruct (_ && _ && _); discriminate.
Qed.
Lemma funcParamsLoop_fuel f : forall acc s, TC s -> (mu s < f)%nat -> funcParamsLoop f acc s <> None.
Proof.
  induction f as [|f IH]; intros acc s T B; [lia|]. cbn [funcParamsLoop].
  destruct (peekIs s token_COMMA) eqn:Ep; [|discriminate]. cbv zeta.
  pose proof (peekIs_nonE s _ Ep ltac:(tokneq) ltac:(tokneq)) as Hp.
  destruct (step_peek s T Hp) as (T1 & M1 & _). destruct (step_le _ T1) as [T2 M2].
  apply IH; [exact T2|lia].
Qed.
Lemma funcParams_nofuel f s : TC s -> (mu s < f)%nat -> parseFunctionParameters f s <> RFuel.
Proof.
  intros T B. unfold parseFunctionParameters. destruct (peekIs s token_RPAREN); [discriminate|]. cbv zeta.
  destruct (step_le s T) as [T1 M1].
  destruct (funcParamsLoop f _ (nextToken s)) as [[ids s2]|] eqn:E.
  - destruct (expectPeek s2 token_RPAREN) as [[] ?]; discriminate.
  - exfalso. revert E. apply funcParamsLoop_fuel; [exact T1|lia].
Qed.

Ltac use_n H :=
  destruct H as (HE & HL & HP & HI & HM & HG & HIf & HB & HBL & HS & HEL & HELL & HML).

(* close a branch that ended in a sub-call out of fuel: the induction hypothesis forbids it *)
Ltac close_with H E := eapply H; [ | | exact E ]; [ assumption | lia ].
Ltac close_with_pre H E := eapply H; [ | | | exact E ]; [ assumption | first [assumption | (left; assumption) | (right; assumption)] | lia ].
Ltac close :=
  sat;
  match goal with
  | HE : NE _, E : parseExpression conv _ _ _ = RFuel |- False => close_with HE E
  | HL : NL _, E : exprLoop conv _ _ _ _ = RFuel |- False => close_with HL E
  | HP : NP _, E : prefixFn conv _ _ _ = RFuel |- False => close_with_pre HP E
  | HI : NI _, E : infixFn conv _ _ _ _ = RFuel |- False => close_with_pre HI E
  | HM : NM _, E : parseLambdaMulti conv _ _ _ _ = RFuel |- False => close_with_pre HM E
  | HG : NG _, E : parseGroupedExpression conv _ _ = RFuel |- False => close_with_pre HG E
  | HIf : NIf _, E : parseIfExpression conv _ _ = RFuel |- False => close_with_pre HIf E
  | HB : NB _, E : parseBlockStatement conv _ _ = RFuel |- False => close_with_pre HB E
  | HBL : NBL _, E : blockLoop conv _ _ _ = RFuel |- False => close_with HBL E
  | HS : NS _, E : parseStatement conv _ _ = RFuel |- False => close_with HS E
  | HEL : NEL _, E : parseExpressionList conv _ _ _ = RFuel |- False => close_with_pre HEL E
  | HELL : NELL _, E : exprListLoop conv _ _ _ _ = RFuel |- False => close_with HELL E
  | HML : NML _, E : parseMapLoop conv _ _ _ _ = RFuel |- False => close_with_pre HML E
  | E : parseIdentifier _ = RFuel |- False => exact (ident_nofuel _ E)
  | E : parseIntegerLiteral conv _ = RFuel |- False => exact (int_nofuel _ E)
  | E : parseFloatLiteral conv _ = RFuel |- False => exact (float_nofuel _ E)
  | E : parseComment _ = RFuel |- False => exact (comment_nofuel _ E)
  | E : parseFunctionParameters _ _ = RFuel |- False => eapply funcParams_nofuel; [ | | exact E ]; [ assumption | lia ]
  end.

Lemma NS_step f : NAll f -> NS (S f).
Proof.
  intros IH; use_n IH. intros s T B. rewrite parseStatement_S. walk; close.
Qed.
Lemma NB_step f : NAll f -> NB (S f).
Proof.
  intros IH; use_n IH. intros s T C B. rewrite parseBlockStatement_S. walk; close.
Qed.
Lemma NEL_step f : NAll f -> NEL (S f).
Proof.
  intros IH; use_n IH. intros endt s T C B. rewrite parseExpressionList_S. walk; close.
Qed.
Lemma NELL_step f : NAll f -> NELL (S f).
Proof.
  intros IH; use_n IH. intros endt acc s T B. rewrite exprListLoop_S. walk; close.
Qed.
Lemma NE_step f : NAll f -> NE (S f).
Proof. intros IH; use_n IH. intros prec s T B. rewrite parseExpression_S. walk; close. Qed.
Lemma NL_step f : NAll f -> NL (S f).
Proof. intros IH; use_n IH. intros prec left s T B. rewrite exprLoop_S. walk; close. Qed.
Lemma NI_step f : NAll f -> NI (S f).
Proof. intros IH; use_n IH. intros fn left s T C B. rewrite infixFn_S. walk; close. Qed.
Lemma NM_step f : NAll f -> NM (S f).
Proof. intros IH; use_n IH. intros left more s T C B. rewrite parseLambdaMulti_S. walk; close. Qed.
Lemma NG_step f : NAll f -> NG (S f).
Proof. intros IH; use_n IH. intros s T C B. rewrite parseGroupedExpression_S. walk; close. Qed.
Lemma NIf_step f : NAll f -> NIf (S f).
Proof. intros IH; use_n IH. intros s T C B. rewrite parseIfExpression_S. walk; close. Qed.
Lemma NML_step f : NAll f -> NML (S f).
Proof. intros IH; use_n IH. intros t acc s T C B. rewrite parseMapLoop_S. walk; close. Qed.
Lemma NP_step f : NAll f -> NP (S f).
Proof. intros IH; use_n IH. intros fn s T C B. rewrite prefixFn_S. walk; close. Qed.

(* the statement loops: an iteration either consumes a token or is the last one *)
Lemma NBL_step f : NAll f -> NBL (S f).
Proof.
  intros IH; use_n IH. intros acc s T B. rewrite blockLoop_S. walk; try close.
  sat. destruct (isE (ps_cur s0)) eqn:Ec.
  - destruct (mu_end s0 ltac:(assumption) Ec) as [M0 _]. eapply HBL; [ | | exact E0]; [assumption|lia].
  - pose proof (mu_next_lt s0 ltac:(assumption) Ec). eapply HBL; [ | | exact E0]; [assumption|lia].
Qed.

Lemma nofuel_all : forall f, NAll f.
Proof.
  induction f as [|f IH].
  - unfold NAll. repeat (match goal with |- _ /\ _ => split end);
      unfold NE, NL, NP, NI, NM, NG, NIf, NB, NBL, NS, NEL, NELL, NML; intros; lia.
  - unfold NAll. repeat (match goal with |- _ /\ _ => split end).
    + apply NE_step, IH. + apply NL_step, IH. + apply NP_step, IH. + apply NI_step, IH.
    + apply NM_step, IH. + apply NG_step, IH. + apply NIf_step, IH. + apply NB_step, IH.
    + apply NBL_step, IH. + apply NS_step, IH. + apply NEL_step, IH. + apply NELL_step, IH.
    + apply NML_step, IH.
Qed.

Lemma programLoop_nofuel f : forall acc s, TC s -> (4 * mu s + 12 <= f)%nat -> programLoop conv f acc s <> RFuel.
Proof.
  induction f as [|f IH]; intros acc s T B; [lia|]. cbn [programLoop].
  destruct (nofuel_all f) as (_ & _ & _ & _ & _ & _ & _ & _ & _ & HS & _).
  destruct (curIs s token_EOF || curIs s token_EOL) eqn:Ecur; [discriminate|].
  destruct (parseStatement conv f s) as [st s1| |] eqn:E.
  - destruct st as [n|]; [|discriminate]. sat.
    destruct (isE (ps_cur s1)) eqn:Ec.
    + destruct (mu_end s1 ltac:(assumption) Ec) as [M0 _]. destruct (step_le s1 ltac:(assumption)). apply IH; [assumption|lia].
    + destruct (step_lt s1 ltac:(assumption) Ec). apply IH; [assumption|lia].
  - discriminate.
  - exfalso. sat. eapply HS; [ | | exact E]; [assumption|lia].
Qed.
End NoFuel.

(* ---------- whole programs ---------- *)
Lemma cnt_le_length l : (cnt l <= List.length l)%nat.
Proof. unfold cnt. induction l as [|x l IH]; cbn; [lia|]. destruct (negb (isE x)); cbn; lia. Qed.

Theorem parse_program_terminates conv end_type toks :
  end_type = token_EOF \/ end_type = token_EOL ->
  closed (mkPtok (mkTok end_type []) false false) toks ->
  parse_program conv (default_fuel toks) end_type toks <> POutOfFuel.
Proof.
  intros He Hcl. unfold parse_program. set (endt := mkPtok (mkTok end_type []) false false) in *.
  assert (HeE : isE endt = true).
  { unfold isE, endt, pty. cbn [pk ttype]. destruct He as [-> | ->]; [now rewrite Z.eqb_refl|now rewrite Z.eqb_refl, orb_true_r]. }
  set (d := mkPtok dummy_tok false false).
  assert (Hd : isE d = false) by reflexivity.
  set (s0 := mkPs dummy_tok d d toks endt false []).
  assert (T0 : TC s0).
  { split; [|exact HeE]. cbn [ps_cur ps_peek ps_rest ps_end s0 closed].
    split; [intros X; rewrite Hd in X; discriminate X|]. split; [intros X; rewrite Hd in X; discriminate X|]. exact Hcl. }
  destruct (step_lt s0 T0 Hd) as [T1 M1].
  assert (Hc1 : isE (ps_cur (nextToken s0)) = false) by (rewrite isE_cur_next; exact Hd).
  destruct (step_lt _ T1 Hc1) as [T2 M2].
  assert (M0 : mu s0 = (2 + cnt toks)%nat).
  { unfold mu. cbn [ps_cur ps_peek ps_rest s0]. rewrite !cnt_cons, Hd. reflexivity. }
  pose proof (cnt_le_length toks) as Hl.
  change (init_state endt toks) with (nextToken (nextToken s0)).
  destruct (programLoop conv (default_fuel toks) [] (nextToken (nextToken s0))) as [l s| |] eqn:E; try discriminate.
  exfalso. revert E. apply programLoop_nofuel; [exact T2|]. unfold default_fuel. lia.
Qed.

(* ---------- the front end: the lexer's output has its only end marker in last position ---------- *)
From GrolModel Require Import Lexer Frontend.

Lemma closed_last e : forall l, (forall x, In x (removelast l) -> isE x = false) -> isE e = true -> closed e l.
Proof.
  induction l as [|x l IH]; intros H He; [exact I|]. cbn [closed]. split.
  - intros Hx. destruct l as [|y l'].
    + split; [reflexivity|exact He].
    + exfalso. assert (In x (removelast (x :: y :: l'))) by (cbn; now left). rewrite (H x H0) in Hx. discriminate Hx.
  - apply IH; [|exact He]. intros z Hz. apply H. destruct l as [|y l']; [contradiction|]. cbn [removelast] in *. now right.
Qed.

Lemma lex_from_body_not_end fuel lm s : forall pos t,
  In t (removelast (lex_from fuel lm s pos)) -> is_end t = false.
Proof.
  induction fuel as [|fuel IH]; intros pos t H; [contradiction|].
  cbn [lex_from] in H. destruct (next_token lm s pos) as [t0 pos'].
  destruct (is_end t0 || (lt_type t0 <? 0)%Z) eqn:E; [contradiction|].
  apply orb_false_iff in E as [E _].
  destruct (lex_from fuel lm s pos') as [|y l'] eqn:El.
  - contradiction.
  - cbn [removelast] in H. destruct H as [<-|H]; [exact E|]. apply (IH pos'). now rewrite El.
Qed.

Theorem front_parse_terminates conv lineMode src : front_parse conv lineMode src <> POutOfFuel.
Proof.
  unfold front_parse.
  assert (H : parse_program conv (default_fuel (front_tokens lineMode src)) (Frontend.end_type lineMode) (front_tokens lineMode src) <> POutOfFuel).
  { apply parse_program_terminates.
    - destruct lineMode; [now right|now left].
    - apply closed_last.
      + unfold front_tokens. intros x Hx.
        assert (Hr : removelast (map to_ptok (lex_all lineMode src)) = map to_ptok (removelast (lex_all lineMode src))).
        { generalize (lex_all lineMode src). induction l as [|a [|b l'] IHl]; try reflexivity.
          change (removelast (map to_ptok (a :: b :: l'))) with (to_ptok a :: removelast (map to_ptok (b :: l'))).
          now rewrite IHl. }
        rewrite Hr in Hx. apply in_map_iff in Hx as (t & <- & Ht).
        apply lex_from_body_not_end in Ht. unfold is_end in Ht. unfold isE, pty, to_ptok. cbn [pk ttype]. exact Ht.
      + unfold isE, pty. cbn [pk ttype]. destruct lineMode; cbn [Frontend.end_type]; [now rewrite Z.eqb_refl, orb_true_r|now rewrite Z.eqb_refl]. }
  destruct (parse_program conv _ _ _); try discriminate. congruence.
Qed.
