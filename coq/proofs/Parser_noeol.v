(* C15 (1), exactness: a clean parse stores no end-marker token in the tree, so the renaming EOL -> EOF of
   Linemode_sim is the identity on it: line mode and file mode return the SAME tree.
   Every token the parser stores is the current token at a moment when the parser has evidence about its
   type (a table entry, a successful expectPeek, a curIs / peekIs test); the only unchecked ones are the
   parameter names of a function literal, which are followed by a successful expectPeek(`)`): since end
   markers form a suffix of the token list, a later non-end-marker makes every earlier token one.
   One induction on the fuel over the 13 mutually recursive functions, as in Parser_term. *)
From Coq Require Import List ZArith NArith Bool String Lia.
From GrolGen Require Import Gen_Consts Gen_Prec Gen_ParserTables.
From GrolModel Require Import Ast Parser.
From GrolProofs Require Import Parser_eqns Parser_proofs Parser_term Linemode_sim.
Import ListNotations.
Local Open Scope Z_scope.

(* ---------- tokens that the renaming leaves alone ---------- *)
Lemma ft_nonE p : isE p = false -> ft (pk p) = pk p.
Proof.
  unfold isE, pty, ft. intros H. apply orb_false_iff in H as [_ H]. now rewrite H.
Qed.
Lemma ft_ty t x : ttype t = x -> x <> token_EOL -> ft t = t.
Proof. intros <- H. unfold ft. apply Z.eqb_neq in H. now rewrite H. Qed.

(* an earlier current token is not an end marker when a later one is not *)
Lemma later_nonE s s' : TC s -> Le s s' -> isE (ps_cur s') = false -> isE (ps_cur s) = false.
Proof.
  intros T L H. destruct (isE (ps_cur s)) eqn:E; [|reflexivity]. exfalso.
  destruct (mu_end s T E) as [M _]. destruct (L T) as [_ M'].
  pose proof (mu_pos s' H). lia.
Qed.

Lemma postfix_nonE s fn : table_get postfix_fns (pty (ps_peek s)) = Some fn -> isE (ps_peek s) = false.
Proof.
  intros H. apply isE_false_iff. destruct tbl_eol_eof as (_ & _ & _ & _ & A & B & _).
  split; intros E; rewrite E in H; congruence.
Qed.
Lemma prev_next s : ps_prev (nextToken s) = pk (ps_cur s).
Proof. unfold nextToken. now destruct (ps_rest s). Qed.

(* ---------- dirtiness only grows (the le of Parser_proofs), for every function ---------- *)
Lemma dle_expectPeek s t b s2 : expectPeek s t = (b, s2) -> le s s2.
Proof.
  unfold expectPeek. destruct (peekIs s t); [|destruct (peekIs s token_EOL)]; intros [= <- <-]; auto with parse.
Qed.

Ltac solve_dle :=
  repeat first
  [ apply le_refl
  | match goal with K : le ?y ?x |- le _ ?x => first [exact K | eapply le_trans; [|exact K]] end
  | match goal with |- le _ (nextToken _) => eapply le_trans; [|apply le_next] end
  | match goal with |- le _ (set_cont _) => eapply le_trans; [|apply le_cont] end
  | match goal with |- le _ (add_err _ _) => eapply le_trans; [|apply le_err] end
  | match goal with |- le _ (if ?b then _ else _) => destruct b end ].

Section DLe.
Variable conv : numconv.

Lemma dle_float s x s1 : parseFloatLiteral conv s = ROk x s1 -> le s s1.
Proof. unfold parseFloatLiteral. destruct (conv_float conv _); intros [= <- <-]; solve_dle. Qed.
Lemma dle_int s x s1 : parseIntegerLiteral conv s = ROk x s1 -> le s s1.
Proof. unfold parseIntegerLiteral. destruct (conv_int conv _); [intros [= <- <-]; solve_dle|apply dle_float]. Qed.
Lemma dle_ident s x s1 : parseIdentifier s = ROk x s1 -> le s s1.
Proof. unfold parseIdentifier. destruct (table_get postfix_fns _); intros [= <- <-]; cbv zeta; solve_dle. Qed.
Lemma dle_comment s x s1 : parseComment s = ROk x s1 -> le s s1.
Proof.
  unfold parseComment. cbv zeta. destruct (_ =? token_BLOCKCOMMENT).
  - destruct (ends_with_star_slash _); intros [= <- <-]; solve_dle.
  - destruct (_ && _ && _); [discriminate|]. intros [= <- <-]; solve_dle.
Qed.
Lemma dle_funcParamsLoop f : forall acc s ids s2, funcParamsLoop f acc s = Some (ids, s2) -> le s s2.
Proof.
  induction f as [|f IH]; intros acc s ids s2 H; [discriminate|]. cbn [funcParamsLoop] in H.
  destruct (peekIs s token_COMMA).
  - cbv zeta in H. apply IH in H. solve_dle.
  - injection H as <- <-. solve_dle.
Qed.
Lemma dle_funcParams f s pv s3 : parseFunctionParameters f s = ROk pv s3 -> le s s3.
Proof.
  unfold parseFunctionParameters. destruct (peekIs s token_RPAREN).
  - intros [= <- <-]. solve_dle.
  - cbv zeta. destruct (funcParamsLoop f _ (nextToken s)) as [[ids s2]|] eqn:E; [|discriminate].
    apply dle_funcParamsLoop in E.
    destruct (expectPeek s2 token_RPAREN) as [ok s3'] eqn:Ex. apply dle_expectPeek in Ex.
    destruct ok; intros [= <- <-]; solve_dle.
Qed.

Definition DE f := forall prec s x s1, parseExpression conv f prec s = ROk x s1 -> le s s1.
Definition DL f := forall prec left s x s1, exprLoop conv f prec left s = ROk x s1 -> le s s1.
Definition DP f := forall fn s x s1, prefixFn conv f fn s = ROk x s1 -> le s s1.
Definition DI f := forall fn left s x s1, infixFn conv f fn left s = ROk x s1 -> le s s1.
Definition DM f := forall left more s x s1, parseLambdaMulti conv f left more s = ROk x s1 -> le s s1.
Definition DG f := forall s x s1, parseGroupedExpression conv f s = ROk x s1 -> le s s1.
Definition DIf f := forall s x s1, parseIfExpression conv f s = ROk x s1 -> le s s1.
Definition DB f := forall s x s1, parseBlockStatement conv f s = ROk x s1 -> le s s1.
Definition DBL f := forall acc s x s1, blockLoop conv f acc s = ROk x s1 -> le s s1.
Definition DS f := forall s x s1, parseStatement conv f s = ROk x s1 -> le s s1.
Definition DEL f := forall endt s x s1, parseExpressionList conv f endt s = ROk x s1 -> le s s1.
Definition DELL f := forall endt acc s x s1, exprListLoop conv f endt acc s = ROk x s1 -> le s s1.
Definition DML f := forall t acc s x s1, parseMapLoop conv f t acc s = ROk x s1 -> le s s1.
Definition DAll f := DE f /\ DL f /\ DP f /\ DI f /\ DM f /\ DG f /\ DIf f /\ DB f /\ DBL f /\ DS f /\ DEL f /\ DELL f /\ DML f.

Ltac dle_facts :=
  match goal with
  | HE : DE _, HL : DL _, HP : DP _, HI : DI _, HM : DM _, HG : DG _, HIf : DIf _, HB : DB _, HBL : DBL _,
    HS : DS _, HEL : DEL _, HELL : DELL _, HML : DML _ |- _ =>
    repeat match goal with
    | E : parseExpression conv _ _ _ = ROk _ _ |- _ => apply HE in E
    | E : exprLoop conv _ _ _ _ = ROk _ _ |- _ => apply HL in E
    | E : prefixFn conv _ _ _ = ROk _ _ |- _ => apply HP in E
    | E : infixFn conv _ _ _ _ = ROk _ _ |- _ => apply HI in E
    | E : parseLambdaMulti conv _ _ _ _ = ROk _ _ |- _ => apply HM in E
    | E : parseGroupedExpression conv _ _ = ROk _ _ |- _ => apply HG in E
    | E : parseIfExpression conv _ _ = ROk _ _ |- _ => apply HIf in E
    | E : parseBlockStatement conv _ _ = ROk _ _ |- _ => apply HB in E
    | E : blockLoop conv _ _ _ = ROk _ _ |- _ => apply HBL in E
    | E : parseStatement conv _ _ = ROk _ _ |- _ => apply HS in E
    | E : parseExpressionList conv _ _ _ = ROk _ _ |- _ => apply HEL in E
    | E : exprListLoop conv _ _ _ _ = ROk _ _ |- _ => apply HELL in E
    | E : parseMapLoop conv _ _ _ _ = ROk _ _ |- _ => apply HML in E
    | E : parseIdentifier _ = ROk _ _ |- _ => apply dle_ident in E
    | E : parseIntegerLiteral conv _ = ROk _ _ |- _ => apply dle_int in E
    | E : parseFloatLiteral conv _ = ROk _ _ |- _ => apply dle_float in E
    | E : parseComment _ = ROk _ _ |- _ => apply dle_comment in E
    | E : parseFunctionParameters _ _ = ROk _ _ |- _ => apply dle_funcParams in E
    | E : expectPeek _ _ = (_, _) |- _ => apply dle_expectPeek in E
    end
  end.

Ltac use_d H :=
  destruct H as (HE & HL & HP & HI & HM & HG & HIf & HB & HBL & HS & HEL & HELL & HML).

Ltac dstep eqn :=
  let IH := fresh "IH" in
  intros IH; use_d IH; intros;
  match goal with H : _ = ROk _ _ |- _ => rewrite eqn in H end;
  Parser_term.dec; dle_facts; solve_dle.

Lemma DE_step f : DAll f -> DE (S f). Proof. unfold DE. dstep parseExpression_S. Qed.
Lemma DL_step f : DAll f -> DL (S f). Proof. unfold DL. dstep exprLoop_S. Qed.
Lemma DI_step f : DAll f -> DI (S f). Proof. unfold DI. dstep infixFn_S. Qed.
Lemma DM_step f : DAll f -> DM (S f). Proof. unfold DM. dstep parseLambdaMulti_S. Qed.
Lemma DG_step f : DAll f -> DG (S f). Proof. unfold DG. dstep parseGroupedExpression_S. Qed.
Lemma DIf_step f : DAll f -> DIf (S f). Proof. unfold DIf. dstep parseIfExpression_S. Qed.
Lemma DB_step f : DAll f -> DB (S f). Proof. unfold DB. dstep parseBlockStatement_S. Qed.
Lemma DBL_step f : DAll f -> DBL (S f). Proof. unfold DBL. dstep blockLoop_S. Qed.
Lemma DS_step f : DAll f -> DS (S f). Proof. unfold DS. dstep parseStatement_S. Qed.
Lemma DEL_step f : DAll f -> DEL (S f). Proof. unfold DEL. dstep parseExpressionList_S. Qed.
Lemma DELL_step f : DAll f -> DELL (S f). Proof. unfold DELL. dstep exprListLoop_S. Qed.
Lemma DML_step f : DAll f -> DML (S f). Proof. unfold DML. dstep parseMapLoop_S. Qed.
Lemma DP_step f : DAll f -> DP (S f). Proof. unfold DP. dstep prefixFn_S. Qed.

Lemma dle_all : forall f, DAll f.
Proof.
  induction f as [|f IH].
  - unfold DAll. repeat (match goal with |- _ /\ _ => split end);
      unfold DE, DL, DP, DI, DM, DG, DIf, DB, DBL, DS, DEL, DELL, DML; intros; discriminate.
  - unfold DAll. repeat (match goal with |- _ /\ _ => split end).
    + apply DE_step, IH. + apply DL_step, IH. + apply DP_step, IH. + apply DI_step, IH.
    + apply DM_step, IH. + apply DG_step, IH. + apply DIf_step, IH. + apply DB_step, IH.
    + apply DBL_step, IH. + apply DS_step, IH. + apply DEL_step, IH. + apply DELL_step, IH.
    + apply DML_step, IH.
Qed.
End DLe.

(* ---------- the main invariant: results of clean runs are fixed by the renaming ---------- *)
Definition idp (l : list (option node * option node)) : Prop := fpairs l = l.

Lemma fl_app_id acc x : fl acc = acc -> fo x = x -> fl (acc ++ [x]) = acc ++ [x].
Proof. intros A B. rewrite map_app. cbn [map]. now rewrite A, B. Qed.
Lemma fpairs_app_id acc k v : fpairs acc = acc -> fo k = k -> fo v = v -> fpairs (acc ++ [(k, v)]) = acc ++ [(k, v)].
Proof. intros A B C. unfold fpairs in *. rewrite map_app. cbn [map fst snd]. now rewrite A, B, C. Qed.
Lemma infix_colon_id kv k v : is_infix_colon kv = Some (k, v) -> fo kv = kv -> fo k = k /\ fo v = v.
Proof.
  destruct kv as [[]|]; cbn [is_infix_colon]; try discriminate.
  destruct (ttype t =? token_COLON); [|discriminate]. intros [= <- <-]. cbn [option_map fnode].
  intros [= _ A B]. now rewrite A, B.
Qed.

Ltac tokneq := let E := fresh in intros E; vm_compute in E; discriminate E.
Ltac known_TC x := match goal with _ : TC x |- _ => idtac end.
Ltac unknown_TC x := lazymatch goal with _ : TC x |- _ => fail | _ => idtac end.

(* saturate the context with what is known about every state that occurs (as in Parser_term, generic in conv) *)
Ltac sat1 :=
  match goal with
  | H : (if ?b then (_, _) else (_, _)) = (_, _) |- _ => destruct b eqn:?; injection H as <- <-
  | H : _ && _ = true |- _ => apply andb_true_iff in H; destruct H
  | H : negb ?b = false |- _ => apply negb_false_iff in H; try subst b
  | H : negb ?b = true |- _ => apply negb_true_iff in H; try subst b
  | H : _ || _ = false |- _ => apply orb_false_iff in H; destruct H
  | H1 : curIs ?y token_EOF = false, H2 : curIs ?y token_EOL = false |- _ =>
      lazymatch goal with _ : isE (ps_cur y) = false |- _ => fail | _ => idtac end;
      pose proof (curIs_isE y H1 H2)
  | H : peekIs ?y ?t = true |- _ =>
      lazymatch goal with _ : isE (ps_peek y) = false |- _ => fail | _ => idtac end;
      pose proof (peekIs_nonE y t H ltac:(tokneq) ltac:(tokneq))
  | H : curIs ?y ?t = true |- _ =>
      lazymatch goal with _ : isE (ps_cur y) = false |- _ => fail | _ => idtac end;
      pose proof (curIs_nonE y t H ltac:(tokneq) ltac:(tokneq))
  | H : table_get infix_fns (pty (ps_peek ?y)) = Some _ |- _ =>
      lazymatch goal with _ : isE (ps_peek y) = false |- _ => fail | _ => idtac end;
      pose proof (infix_nonE y _ H)
  | H : table_get postfix_fns (pty (ps_peek ?y)) = Some _ |- _ =>
      lazymatch goal with _ : isE (ps_peek y) = false |- _ => fail | _ => idtac end;
      pose proof (postfix_nonE y _ H)
  | H : table_get prefix_fns (pty (ps_cur ?y)) = Some _ |- _ =>
      lazymatch goal with _ : isE (ps_cur y) = false |- _ => fail | _ => idtac end;
      pose proof (prefix_nonE y _ H)
  | H : isE (ps_peek ?y) = false, T : TC ?y |- _ =>
      lazymatch goal with _ : isE (ps_cur y) = false |- _ => fail | _ => idtac end;
      pose proof (peek_nonE_cur y T H)
  | E : _ = ROk _ ?z |- _ =>
      unknown_TC z;
      let L := fresh "L" in
      first [ pose proof (proj1 (le_all _ _) _ _ _ _ E) as L
            | pose proof (proj1 (proj2 (le_all _ _)) _ _ _ _ _ E) as L
            | pose proof (proj1 (proj2 (proj2 (le_all _ _))) _ _ _ _ E) as L
            | pose proof (proj1 (proj2 (proj2 (proj2 (le_all _ _)))) _ _ _ _ _ E) as L
            | pose proof (proj1 (proj2 (proj2 (proj2 (proj2 (le_all _ _))))) _ _ _ _ _ E) as L
            | pose proof (proj1 (proj2 (proj2 (proj2 (proj2 (proj2 (le_all _ _)))))) _ _ _ E) as L
            | pose proof (proj1 (proj2 (proj2 (proj2 (proj2 (proj2 (proj2 (le_all _ _))))))) _ _ _ E) as L
            | pose proof (proj1 (proj2 (proj2 (proj2 (proj2 (proj2 (proj2 (proj2 (le_all _ _)))))))) _ _ _ E) as L
            | pose proof (proj1 (proj2 (proj2 (proj2 (proj2 (proj2 (proj2 (proj2 (proj2 (le_all _ _))))))))) _ _ _ _ E) as L
            | pose proof (proj1 (proj2 (proj2 (proj2 (proj2 (proj2 (proj2 (proj2 (proj2 (proj2 (le_all _ _)))))))))) _ _ _ E) as L
            | pose proof (proj1 (proj2 (proj2 (proj2 (proj2 (proj2 (proj2 (proj2 (proj2 (proj2 (proj2 (le_all _ _))))))))))) _ _ _ _ E) as L
            | pose proof (proj1 (proj2 (proj2 (proj2 (proj2 (proj2 (proj2 (proj2 (proj2 (proj2 (proj2 (proj2 (le_all _ _)))))))))))) _ _ _ _ _ E) as L
            | pose proof (proj2 (proj2 (proj2 (proj2 (proj2 (proj2 (proj2 (proj2 (proj2 (proj2 (proj2 (proj2 (le_all _ _)))))))))))) _ _ _ _ _ E) as L
            | pose proof (Le_funcParams _ _ _ _ E) as L
            | pose proof (Le_ident _ _ _ E) as L
            | pose proof (Le_int _ _ _ _ E) as L
            | pose proof (Le_float _ _ _ _ E) as L
            | pose proof (Le_comment _ _ _ E) as L ];
      match type of L with Le ?a _ => known_TC a end;
      match type of L with Le ?a _ => match goal with T : TC a |- _ => destruct (L T) as [? ?] end end; clear L
  | E : expectPeek ?y ?t = (true, ?z), T : TC ?y |- _ =>
      unknown_TC z; destruct (expectPeek_ok y t z E ltac:(tokneq) ltac:(tokneq) T) as (? & ? & ?)
  | E : expectPeek ?y ?t = (false, ?z), T : TC ?y |- _ =>
      unknown_TC z; destruct (Le_expectPeek y t _ z E T) as [? ?]
  | T : TC ?y |- context [nextToken ?y] => unknown_TC (nextToken y); destruct (step_le y T) as [? ?]
  | T : TC ?y, _ : context [nextToken ?y] |- _ => unknown_TC (nextToken y); destruct (step_le y T) as [? ?]
  | H : isE (ps_peek ?y) = false |- _ =>
      lazymatch goal with _ : isE (ps_cur (nextToken y)) = false |- _ => fail | _ => idtac end;
      assert (isE (ps_cur (nextToken y)) = false) by (rewrite isE_cur_next; exact H)
  end.
Ltac sat := repeat sat1.

(* ... and with the cleanliness of every intermediate state, from that of the last one *)
Ltac strip_next a := lazymatch a with nextToken ?b => strip_next b | _ => a end.
Ltac unknown_clean x :=
  let x' := strip_next x in lazymatch goal with _ : dirty x' = false |- _ => fail | _ => idtac end.
Ltac dsat1 :=
  match goal with
  | D : dirty (if ?b then _ else _) = false |- _ => destruct b eqn:?
  | D : dirty (nextToken ?y) = false |- _ => rewrite dirty_next in D
  | D : dirty (set_cont ?y) = false |- _ => rewrite dirty_cont in D; discriminate D
  | D : dirty (add_err _ ?y) = false |- _ => discriminate D
  | E : expectPeek ?y ?t = (false, ?z), D : dirty ?z = false |- _ =>
      exfalso; destruct (expectPeek_spec _ _ _ _ E) as [(X & _)|(_ & X & _)]; [discriminate X|congruence]
  | E : expectPeek ?y ?t = (true, ?z), D : dirty ?z = false |- _ =>
      unknown_clean y;
      let X := fresh in
      assert (X : dirty y = false) by
        (destruct (expectPeek_spec _ _ _ _ E) as [(_ & _ & ->)|(X' & _)]; [now rewrite dirty_next in D|discriminate X']);
      rewrite ?dirty_next in X
  | E : _ = ROk _ ?z, D : dirty ?z = false |- _ =>
      let L := fresh "L" in
      first [ pose proof (proj1 (dle_all _ _) _ _ _ _ E) as L
            | pose proof (proj1 (proj2 (dle_all _ _)) _ _ _ _ _ E) as L
            | pose proof (proj1 (proj2 (proj2 (dle_all _ _))) _ _ _ _ E) as L
            | pose proof (proj1 (proj2 (proj2 (proj2 (dle_all _ _)))) _ _ _ _ _ E) as L
            | pose proof (proj1 (proj2 (proj2 (proj2 (proj2 (dle_all _ _))))) _ _ _ _ _ E) as L
            | pose proof (proj1 (proj2 (proj2 (proj2 (proj2 (proj2 (dle_all _ _)))))) _ _ _ E) as L
            | pose proof (proj1 (proj2 (proj2 (proj2 (proj2 (proj2 (proj2 (dle_all _ _))))))) _ _ _ E) as L
            | pose proof (proj1 (proj2 (proj2 (proj2 (proj2 (proj2 (proj2 (proj2 (dle_all _ _)))))))) _ _ _ E) as L
            | pose proof (proj1 (proj2 (proj2 (proj2 (proj2 (proj2 (proj2 (proj2 (proj2 (dle_all _ _))))))))) _ _ _ _ E) as L
            | pose proof (proj1 (proj2 (proj2 (proj2 (proj2 (proj2 (proj2 (proj2 (proj2 (proj2 (dle_all _ _)))))))))) _ _ _ E) as L
            | pose proof (proj1 (proj2 (proj2 (proj2 (proj2 (proj2 (proj2 (proj2 (proj2 (proj2 (proj2 (dle_all _ _))))))))))) _ _ _ _ E) as L
            | pose proof (proj1 (proj2 (proj2 (proj2 (proj2 (proj2 (proj2 (proj2 (proj2 (proj2 (proj2 (proj2 (dle_all _ _)))))))))))) _ _ _ _ _ E) as L
            | pose proof (proj2 (proj2 (proj2 (proj2 (proj2 (proj2 (proj2 (proj2 (proj2 (proj2 (proj2 (proj2 (dle_all _ _)))))))))))) _ _ _ _ _ E) as L
            | pose proof (dle_funcParams _ _ _ _ E) as L
            | pose proof (dle_ident _ _ _ E) as L
            | pose proof (dle_int _ _ _ _ E) as L
            | pose proof (dle_float _ _ _ _ E) as L
            | pose proof (dle_comment _ _ _ E) as L ];
      match type of L with le ?a _ => unknown_clean a end;
      let X := fresh in pose proof (dirty_false_le _ _ L D) as X; clear L; rewrite ?dirty_next in X
  end.
Ltac dsat := repeat dsat1.

Lemma funcParamsLoop_id f : forall acc s ids s2, funcParamsLoop f acc s = Some (ids, s2) -> TC s ->
  isE (ps_cur s2) = false -> fl acc = acc -> fl ids = ids.
Proof.
  induction f as [|f IH]; intros acc s ids s2 H T C A; [discriminate|]. cbn [funcParamsLoop] in H.
  destruct (peekIs s token_COMMA) eqn:Ep.
  - cbv zeta in H.
    assert (T2 : TC (nextToken (nextToken s))) by (apply TC_next, TC_next, T).
    eapply IH; [exact H|exact T2|exact C|].
    apply fl_app_id; [exact A|]. cbn [option_map fnode]. rewrite ft_nonE; [reflexivity|].
    eapply later_nonE; [exact T2|eapply Le_funcParamsLoop; exact H|exact C].
  - injection H as <- <-. exact A.
Qed.

Lemma funcParams_id f s ps v s3 : parseFunctionParameters f s = ROk (ps, v) s3 -> TC s -> dirty s3 = false -> fol ps = ps.
Proof.
  unfold parseFunctionParameters. destruct (peekIs s token_RPAREN).
  - intros [= <- _ _]. reflexivity.
  - cbv zeta. destruct (funcParamsLoop f _ (nextToken s)) as [[ids s2]|] eqn:E; [|discriminate].
    destruct (expectPeek s2 token_RPAREN) as [ok s3'] eqn:Ex. intros H T D.
    destruct ok; injection H as <- _ <-; [|reflexivity].
    cbn [option_map]. f_equal.
    assert (T1 : TC (nextToken s)) by apply TC_next, T.
    pose proof (Le_funcParamsLoop _ _ _ _ _ E) as L. destruct (L T1) as [T2 _].
    destruct (expectPeek_spec _ _ _ _ Ex) as [(_ & Hp & _)|(X & _)]; [|discriminate X].
    pose proof (peek_nonE_cur _ T2 (peekIs_nonE _ _ Hp ltac:(tokneq) ltac:(tokneq))) as C2.
    eapply funcParamsLoop_id; [exact E|exact T1|exact C2|].
    cbn [map option_map fnode]. rewrite ft_nonE; [reflexivity|].
    eapply later_nonE; [exact T1|exact L|exact C2].
Qed.

Lemma params_id left more : fo left = left -> fol more = more ->
  fol match left with
      | Some _ => Some (left :: match more with Some m => m | None => [] end)
      | None => match more with Some [] => None | _ => more end
      end
  = match left with
    | Some _ => Some (left :: match more with Some m => m | None => [] end)
    | None => match more with Some [] => None | _ => more end
    end.
Proof.
  intros A B. destruct left as [n|]; destruct more as [[|y m]|]; cbn [option_map map] in *; try reflexivity; try exact B.
  - now rewrite A.
  - injection B as B1 B2. now rewrite A, B1, B2.
  - now rewrite A.
Qed.

Lemma ident_id s x s' : parseIdentifier s = ROk x s' -> isE (ps_cur s) = false -> fo x = x.
Proof.
  unfold parseIdentifier. destruct (table_get postfix_fns _) eqn:E; cbv zeta; intros [= <- _] C; cbn [option_map fnode].
  - rewrite prev_next. rewrite !ft_nonE; [reflexivity|exact C|].
    rewrite isE_cur_next. eapply postfix_nonE. exact E.
  - now rewrite ft_nonE.
Qed.
Lemma float_id conv s x s' : parseFloatLiteral conv s = ROk x s' -> isE (ps_cur s) = false -> fo x = x.
Proof.
  unfold parseFloatLiteral. destruct (conv_float conv _); intros [= <- _] C; cbn [option_map fnode]; [|reflexivity].
  now rewrite ft_nonE.
Qed.
Lemma int_id conv s x s' : parseIntegerLiteral conv s = ROk x s' -> isE (ps_cur s) = false -> fo x = x.
Proof.
  unfold parseIntegerLiteral. destruct (conv_int conv _); [|apply float_id].
  intros [= <- _] C; cbn [option_map fnode]. now rewrite ft_nonE.
Qed.
Lemma comment_id s x s' : parseComment s = ROk x s' -> isE (ps_cur s) = false -> fo x = x.
Proof.
  unfold parseComment. cbv zeta. intros H C. destruct (_ =? token_BLOCKCOMMENT).
  - destruct (ends_with_star_slash _); injection H as <- _; cbn [option_map fnode]; [now rewrite ft_nonE|reflexivity].
  - destruct (_ && _ && _); [discriminate|]. injection H as <- _. cbn [option_map fnode]. now rewrite ft_nonE.
Qed.

Section NoEol.
Variable conv : numconv.

Definition QE f := forall prec s x s', parseExpression conv f prec s = ROk x s' -> TC s -> dirty s' = false -> fo x = x.
Definition QL f := forall prec left s x s', exprLoop conv f prec left s = ROk x s' -> TC s -> dirty s' = false ->
  fo left = left -> fo x = x.
Definition QP f := forall fn s x s', prefixFn conv f fn s = ROk x s' -> TC s -> isE (ps_cur s) = false ->
  dirty s' = false -> fo x = x.
Definition QI f := forall fn left s x s', infixFn conv f fn left s = ROk x s' -> TC s -> isE (ps_cur s) = false ->
  dirty s' = false -> fo left = left -> fo x = x.
Definition QM f := forall left more s x s', parseLambdaMulti conv f left more s = ROk x s' -> TC s ->
  isE (ps_cur s) = false -> dirty s' = false -> fo left = left -> fol more = more -> fo x = x.
Definition QG f := forall s x s', parseGroupedExpression conv f s = ROk x s' -> TC s -> dirty s' = false -> fo x = x.
Definition QIf f := forall s x s', parseIfExpression conv f s = ROk x s' -> TC s -> isE (ps_cur s) = false ->
  dirty s' = false -> fo x = x.
Definition QB f := forall s x s', parseBlockStatement conv f s = ROk x s' -> TC s -> dirty s' = false -> fo x = x.
Definition QBL f := forall acc s x s', blockLoop conv f acc s = ROk x s' -> TC s -> dirty s' = false ->
  fl acc = acc -> fo x = x.
Definition QS f := forall s x s', parseStatement conv f s = ROk x s' -> TC s -> dirty s' = false -> fo x = x.
Definition QEL f := forall endt s x s', parseExpressionList conv f endt s = ROk x s' -> TC s -> dirty s' = false -> fol x = x.
Definition QELL f := forall endt acc s x s', exprListLoop conv f endt acc s = ROk x s' -> TC s -> dirty s' = false ->
  fl acc = acc -> fol x = x.
Definition QML f := forall t acc s x s', parseMapLoop conv f t acc s = ROk x s' -> TC s -> dirty s' = false ->
  ft t = t -> fpairs acc = acc -> fo x = x.
Definition QAll f := QE f /\ QL f /\ QP f /\ QI f /\ QM f /\ QG f /\ QIf f /\ QB f /\ QBL f /\ QS f /\ QEL f /\ QELL f /\ QML f.

Ltac use_q H :=
  destruct H as (HE & HL & HP & HI & HM & HG & HIf & HB & HBL & HS & HEL & HELL & HML).

Ltac unknown_id x := lazymatch goal with _ : option_map fnode x = x |- _ => fail | _ => idtac end.
Ltac unknown_idl x := lazymatch goal with _ : option_map (map (option_map fnode)) x = x |- _ => fail | _ => idtac end.

Ltac tokfix :=
  rewrite ?prev_next; repeat (rewrite ft_nonE by assumption).
Ltac fin :=
  cbn [option_map fnode map fst snd];
  tokfix;
  repeat match goal with
  | H : option_map fnode ?x = ?x |- _ => rewrite H
  | H : option_map (map (option_map fnode)) ?x = ?x |- _ => rewrite H
  | H : map (option_map fnode) ?x = ?x |- _ => rewrite H
  | H : ft ?t = ?t |- _ => rewrite H
  | H : fpairs ?x = ?x |- _ => unfold fpairs in H; rewrite H
  end;
  try reflexivity.
Ltac idgoal :=
  first [ assumption | reflexivity
        | (apply fl_app_id; assumption)
        | (apply fpairs_app_id; assumption)
        | (apply ft_nonE; assumption)
        | solve [fin] ].

Ltac ids1 :=
  match goal with
  | HE : QE _, E : parseExpression conv _ _ _ = ROk ?x _ |- _ =>
      unknown_id x; assert (fo x = x) by (eapply HE; [exact E|assumption|assumption])
  | HL : QL _, E : exprLoop conv _ _ _ _ = ROk ?x _ |- _ =>
      unknown_id x; assert (fo x = x) by (eapply HL; [exact E|assumption|assumption|idgoal])
  | HP : QP _, E : prefixFn conv _ _ _ = ROk ?x _ |- _ =>
      unknown_id x; assert (fo x = x) by (eapply HP; [exact E|assumption|assumption|assumption])
  | HI : QI _, E : infixFn conv _ _ _ _ = ROk ?x _ |- _ =>
      unknown_id x; assert (fo x = x) by (eapply HI; [exact E|assumption|assumption|assumption|idgoal])
  | HM : QM _, E : parseLambdaMulti conv _ _ _ _ = ROk ?x _ |- _ =>
      unknown_id x; assert (fo x = x) by (eapply HM; [exact E|assumption|assumption|assumption|idgoal|idgoal])
  | HG : QG _, E : parseGroupedExpression conv _ _ = ROk ?x _ |- _ =>
      unknown_id x; assert (fo x = x) by (eapply HG; [exact E|assumption|assumption])
  | HIf : QIf _, E : parseIfExpression conv _ _ = ROk ?x _ |- _ =>
      unknown_id x; assert (fo x = x) by (eapply HIf; [exact E|assumption|assumption|assumption])
  | HB : QB _, E : parseBlockStatement conv _ _ = ROk ?x _ |- _ =>
      unknown_id x; assert (fo x = x) by (eapply HB; [exact E|assumption|assumption])
  | HBL : QBL _, E : blockLoop conv _ _ _ = ROk ?x _ |- _ =>
      unknown_id x; assert (fo x = x) by (eapply HBL; [exact E|assumption|assumption|idgoal])
  | HS : QS _, E : parseStatement conv _ _ = ROk ?x _ |- _ =>
      unknown_id x; assert (fo x = x) by (eapply HS; [exact E|assumption|assumption])
  | HEL : QEL _, E : parseExpressionList conv _ _ _ = ROk ?x _ |- _ =>
      unknown_idl x; assert (fol x = x) by (eapply HEL; [exact E|assumption|assumption])
  | HELL : QELL _, E : exprListLoop conv _ _ _ _ = ROk ?x _ |- _ =>
      unknown_idl x; assert (fol x = x) by (eapply HELL; [exact E|assumption|assumption|idgoal])
  | HML : QML _, E : parseMapLoop conv _ _ _ _ = ROk ?x _ |- _ =>
      unknown_id x; assert (fo x = x) by (eapply HML; [exact E|assumption|assumption|idgoal|idgoal])
  | E : parseIdentifier _ = ROk ?x _ |- _ =>
      unknown_id x; assert (fo x = x) by (eapply ident_id; [exact E|assumption])
  | E : parseIntegerLiteral conv _ = ROk ?x _ |- _ =>
      unknown_id x; assert (fo x = x) by (eapply int_id; [exact E|assumption])
  | E : parseFloatLiteral conv _ = ROk ?x _ |- _ =>
      unknown_id x; assert (fo x = x) by (eapply float_id; [exact E|assumption])
  | E : parseComment _ = ROk ?x _ |- _ =>
      unknown_id x; assert (fo x = x) by (eapply comment_id; [exact E|assumption])
  | E : parseFunctionParameters _ _ = ROk (?ps, _) _ |- _ =>
      unknown_idl ps; assert (fol ps = ps) by (eapply funcParams_id; [exact E|assumption|assumption])
  | E : is_infix_colon ?kv = Some (?k, ?v), H : option_map fnode ?kv = ?kv |- _ =>
      unknown_id k; destruct (infix_colon_id _ _ _ E H)
  end.
Ltac ids := repeat ids1.

Ltac qstep eqn :=
  match goal with H : _ = ROk _ _ |- _ => rewrite eqn in H end;
  Parser_term.dec; sat; dsat; sat; ids; fin.

Lemma QS_step f : QAll f -> QS (S f).
Proof. intros IH; use_q IH. intros s x s' H T D. qstep parseStatement_S. Qed.
Lemma QB_step f : QAll f -> QB (S f).
Proof. intros IH; use_q IH. intros s x s' H T D. qstep parseBlockStatement_S. Qed.
Lemma QBL_step f : QAll f -> QBL (S f).
Proof. intros IH; use_q IH. intros acc s x s' H T D A. qstep blockLoop_S. Qed.
Lemma QEL_step f : QAll f -> QEL (S f).
Proof. intros IH; use_q IH. intros endt s x s' H T D. qstep parseExpressionList_S. Qed.
Lemma QELL_step f : QAll f -> QELL (S f).
Proof. intros IH; use_q IH. intros endt acc s x s' H T D A. qstep exprListLoop_S. Qed.
Lemma QE_step f : QAll f -> QE (S f).
Proof. intros IH; use_q IH. intros prec s x s' H T D. qstep parseExpression_S. Qed.
Lemma QL_step f : QAll f -> QL (S f).
Proof. intros IH; use_q IH. intros prec left s x s' H T D A. qstep exprLoop_S. Qed.
Lemma QI_step f : QAll f -> QI (S f).
Proof. intros IH; use_q IH. intros fn left s x s' H T C D A. qstep infixFn_S. Qed.
Lemma QG_step f : QAll f -> QG (S f).
Proof. intros IH; use_q IH. intros s x s' H T D. qstep parseGroupedExpression_S. Qed.
Lemma QIf_step f : QAll f -> QIf (S f).
Proof. intros IH; use_q IH. intros s x s' H T C D. qstep parseIfExpression_S. Qed.
Lemma QML_step f : QAll f -> QML (S f).
Proof. intros IH; use_q IH. intros t acc s x s' H T D A B. qstep parseMapLoop_S. Qed.
Lemma QM_step f : QAll f -> QM (S f).
Proof. intros IH; use_q IH. intros left more s x s' H T C D A B. qstep parseLambdaMulti_S.
  all: rewrite params_id by assumption; reflexivity.
Qed.
Lemma QP_step f : QAll f -> QP (S f).
Proof. intros IH; use_q IH. intros fn s x s' H T C D. qstep prefixFn_S. Qed.

Lemma noeol_all : forall f, QAll f.
Proof.
  induction f as [|f IH].
  - unfold QAll. repeat (match goal with |- _ /\ _ => split end);
      unfold QE, QL, QP, QI, QM, QG, QIf, QB, QBL, QS, QEL, QELL, QML; intros; discriminate.
  - unfold QAll. repeat (match goal with |- _ /\ _ => split end).
    + apply QE_step, IH. + apply QL_step, IH. + apply QP_step, IH. + apply QI_step, IH.
    + apply QM_step, IH. + apply QG_step, IH. + apply QIf_step, IH. + apply QB_step, IH.
    + apply QBL_step, IH. + apply QS_step, IH. + apply QEL_step, IH. + apply QELL_step, IH.
    + apply QML_step, IH.
Qed.

Lemma programLoop_id fuel : forall acc s l s', programLoop conv fuel acc s = ROk l s' -> TC s -> dirty s' = false ->
  fl acc = acc -> fl l = l.
Proof.
  induction fuel as [|fuel IH]; intros acc s l s' H T D A; [discriminate|]. cbn [programLoop] in H.
  destruct (curIs s token_EOF || curIs s token_EOL); [now injection H as <- <-|].
  destruct (parseStatement conv fuel s) as [st s1| |] eqn:E; try discriminate.
  destruct (noeol_all fuel) as (_ & _ & _ & _ & _ & _ & _ & _ & _ & HS & _).
  pose proof (proj1 (proj2 (proj2 (proj2 (proj2 (proj2 (proj2 (proj2 (proj2 (proj2 (le_all conv fuel)))))))))) _ _ _ E) as L.
  pose proof (proj1 (proj2 (proj2 (proj2 (proj2 (proj2 (proj2 (proj2 (proj2 (proj2 (dle_all conv fuel)))))))))) _ _ _ E) as Ld.
  destruct (L T) as [T1 _].
  destruct st as [n|].
  - assert (Dl : le (nextToken s1) s').
    { clear -H. revert H. generalize (acc ++ [Some n]). generalize (nextToken s1). clear. 
      induction fuel as [|fuel IH]; intros s acc H; [discriminate|]. cbn [programLoop] in H.
      destruct (curIs s token_EOF || curIs s token_EOL); [injection H as _ <-; apply le_refl|].
      destruct (parseStatement conv fuel s) as [st s1| |] eqn:E; try discriminate.
      pose proof (proj1 (proj2 (proj2 (proj2 (proj2 (proj2 (proj2 (proj2 (proj2 (proj2 (dle_all conv fuel)))))))))) _ _ _ E) as Ld.
      destruct st; [|injection H as _ <-; exact Ld].
      eapply le_trans; [exact Ld|]. eapply le_trans; [apply le_next|]. eapply IH. exact H. }
    pose proof (dirty_false_le _ _ Dl D) as D1. rewrite dirty_next in D1.
    eapply IH; [exact H|now apply TC_next|exact D|].
    apply fl_app_id; [exact A|]. eapply HS; [exact E|exact T|exact D1].
  - injection H as <- <-. exact A.
Qed.
End NoEol.

(* a clean parse of a token list whose end markers form a suffix stores no end-marker token in the tree *)
Theorem clean_tree_fixed_by_renaming conv fuel end_type toks r :
  end_type = token_EOF \/ end_type = token_EOL ->
  closed (mkPtok (mkTok end_type []) false false) toks ->
  parse_program conv fuel end_type toks = POk r -> clean_result r = true ->
  fl (pr_tree r) = pr_tree r.
Proof.
  intros He Hcl. unfold parse_program. set (endt := mkPtok (mkTok end_type []) false false) in *.
  assert (HeE : isE endt = true).
  { unfold isE, endt, pty. cbn [pk ttype]. destruct He as [-> | ->]; [now rewrite Z.eqb_refl|now rewrite Z.eqb_refl, orb_true_r]. }
  set (d := mkPtok dummy_tok false false).
  assert (Hd : isE d = false) by reflexivity.
  set (s0 := mkPs dummy_tok d d toks endt false []).
  assert (T0 : TC s0).
  { split; [|exact HeE]. cbn [ps_cur ps_peek ps_rest ps_end s0 closed].
    split; [intros X; rewrite Hd in X; discriminate X|]. split; [intros X; rewrite Hd in X; discriminate X|]. exact Hcl. }
  change (init_state endt toks) with (nextToken (nextToken s0)).
  destruct (programLoop conv fuel [] (nextToken (nextToken s0))) as [l s| |] eqn:E; try discriminate.
  intros [= <-] Hc. cbn [pr_tree]. unfold clean_result in Hc. cbn [pr_errs pr_cont] in Hc.
  eapply programLoop_id; [exact E|now apply TC_next, TC_next| |reflexivity].
  unfold dirty. destruct (ps_errs s) as [|e es].
  - cbn in Hc. now apply negb_true_iff in Hc.
  - exfalso. cbn [rev] in Hc. destruct (rev es ++ [e]) eqn:X; [|discriminate Hc].
    apply app_eq_nil in X as [_ X]. discriminate X.
Qed.
