(* The bitwise operators of evalIntegerInfixExpression stay inside int64 (C07: the model's Val of & | ^ on int64
   operands denotes an int64, as the Go operators do without any wrap).  Completes int_infix_arith_in_range of
   proofs/Arith_proofs.v to ALL operators. *)
From Coq Require Import List ZArith Bool Lia.
From GrolGen Require Import Gen_Consts.
From GrolModel Require Import Arith.
From GrolProofs Require Import Arith_proofs.
Import ListNotations.
Local Open Scope Z_scope.

(* a nonnegative z is below 2^n iff all its bits from n on are 0 *)
Lemma nonneg_small_bits : forall z n, 0 <= n -> 0 <= z ->
  (z < 2 ^ n <-> forall i, n <= i -> Z.testbit z i = false).
Proof.
  intros z n Hn Hz. split.
  - intros Hlt i Hi. destruct (Z.eq_dec z 0) as [-> | Hnz]; [ apply Z.bits_0 |].
    apply Z.bits_above_log2; [ exact Hz |].
    assert (Z.log2 z < n) by (apply Z.log2_lt_pow2; lia). lia.
  - intros Hb. destruct (Z_lt_le_dec z (2 ^ n)) as [Hlt | Hge]; [ exact Hlt | exfalso ].
    assert (Hpos : 0 < z) by (pose proof (Z.pow_pos_nonneg 2 n); lia).
    assert (Hl : n <= Z.log2 z) by (apply Z.log2_le_pow2; lia).
    pose proof (Z.bit_log2 z Hpos) as Hbit. rewrite (Hb _ Hl) in Hbit. discriminate.
Qed.

(* two's complement range as a statement about bits: every bit from n on repeats bit n *)
Lemma range_bits : forall z n, 0 <= n ->
  (- 2 ^ n <= z < 2 ^ n <-> forall i, n <= i -> Z.testbit z i = Z.testbit z n).
Proof.
  intros z n Hn. destruct (Z_le_gt_dec 0 z) as [Hz | Hz].
  - split.
    + intros [_ Hlt] i Hi. pose proof (proj1 (nonneg_small_bits z n Hn Hz) Hlt) as Hb.
      rewrite (Hb i Hi), (Hb n (Z.le_refl n)). reflexivity.
    + intro Hb. split; [ pose proof (Z.pow_pos_nonneg 2 n); lia |].
      apply (nonneg_small_bits z n Hn Hz). intros i Hi. rewrite (Hb i Hi).
      destruct (Z.testbit z n) eqn:En; [| reflexivity ]. exfalso.
      (* all bits from n on are 1: z would be negative *)
      destruct (proj1 (Z.bits_iff_nonneg_ex z) Hz) as [k Hk].
      assert (Hm : Z.testbit z (Z.max n (k + 1)) = false) by (apply Hk; lia).
      rewrite (Hb (Z.max n (k + 1))) in Hm by lia. try rewrite En in Hm. discriminate.
  - (* negative: go through lnot z = -z-1 >= 0 *)
    assert (Hl : 0 <= Z.lnot z) by (unfold Z.lnot; lia).
    assert (Hbits : forall i, 0 <= i -> Z.testbit z i = negb (Z.testbit (Z.lnot z) i)).
    { intros i Hi. rewrite Z.lnot_spec by exact Hi. rewrite negb_involutive. reflexivity. }
    split.
    + intros [Hlo _] i Hi.
      assert (Hlt : Z.lnot z < 2 ^ n) by (unfold Z.lnot; lia).
      pose proof (proj1 (nonneg_small_bits (Z.lnot z) n Hn Hl) Hlt) as Hb.
      rewrite (Hbits i) by lia. rewrite (Hbits n) by lia.
      rewrite (Hb i Hi), (Hb n (Z.le_refl n)). reflexivity.
    + intro Hb. split; [| pose proof (Z.pow_pos_nonneg 2 n); lia ].
      assert (Hlt : Z.lnot z < 2 ^ n).
      { apply (nonneg_small_bits (Z.lnot z) n Hn Hl). intros i Hi.
        assert (Hi0 : 0 <= i) by lia.
        pose proof (Hbits i Hi0) as H1. pose proof (Hbits n Hn) as H2. rewrite (Hb i Hi) in H1.
        destruct (Z.testbit (Z.lnot z) i) eqn:Ei; [| reflexivity ]. exfalso.
        (* then bit n of lnot z is 1 as well, and so are all bits above: lnot z would be negative *)
        assert (En : Z.testbit (Z.lnot z) n = true).
        { rewrite H2 in H1. destruct (Z.testbit (Z.lnot z) n); [ reflexivity | discriminate ]. }
        destruct (proj1 (Z.bits_iff_nonneg_ex (Z.lnot z)) Hl) as [k Hk].
        assert (Hm : n <= Z.max n (k + 1)) by lia.
        assert (Hm0 : 0 <= Z.max n (k + 1)) by lia.
        assert (Hf : Z.testbit (Z.lnot z) (Z.max n (k + 1)) = false) by (apply Hk; lia).
        pose proof (Hbits _ Hm0) as H3. rewrite (Hb _ Hm), H2, En, Hf in H3. discriminate. }
      unfold Z.lnot in Hlt. lia.
Qed.

Lemma in_int64_bits : forall z,
  in_int64 z <-> forall i, 63 <= i -> Z.testbit z i = Z.testbit z 63.
Proof.
  intro z. unfold in_int64, min_int, max_int, two63.
  change 9223372036854775808 with (2 ^ 63).
  pose proof (range_bits z 63). split; intro H0.
  - apply H; lia.
  - assert (- 2 ^ 63 <= z < 2 ^ 63) by (apply H; [ lia | exact H0 ]). lia.
Qed.

Lemma bitop_in_int64 : forall (op : Z -> Z -> Z) (f : bool -> bool -> bool),
  (forall a b i, Z.testbit (op a b) i = f (Z.testbit a i) (Z.testbit b i)) ->
  forall a b, in_int64 a -> in_int64 b -> in_int64 (op a b).
Proof.
  intros op f Hspec a b Ha Hb. apply in_int64_bits. intros i Hi.
  rewrite !Hspec. rewrite (proj1 (in_int64_bits a) Ha i Hi), (proj1 (in_int64_bits b) Hb i Hi). reflexivity.
Qed.

Lemma land_in_int64 : forall a b, in_int64 a -> in_int64 b -> in_int64 (Z.land a b).
Proof. apply (bitop_in_int64 Z.land andb). intros; apply Z.land_spec. Qed.
Lemma lor_in_int64 : forall a b, in_int64 a -> in_int64 b -> in_int64 (Z.lor a b).
Proof. apply (bitop_in_int64 Z.lor orb). intros; apply Z.lor_spec. Qed.
Lemma lxor_in_int64 : forall a b, in_int64 a -> in_int64 b -> in_int64 (Z.lxor a b).
Proof. apply (bitop_in_int64 Z.lxor xorb). intros; apply Z.lxor_spec. Qed.

(* every integer operator, on int64 operands, yields an int64 (or a range of int64 bounds) *)
Lemma int_infix_closed : forall free op a b,
  in_int64 a -> in_int64 b ->
  match int_infix free op a b with
  | Val (RInt z) => in_int64 z
  | Val (RRange lo hi) => in_int64 lo /\ in_int64 hi /\ lo <= hi
  | _ => True
  end.
Proof.
  intros free op a b Ha Hb.
  destruct (int_infix free op a b) as [[z | lo hi] | | k | g] eqn:E; try exact I.
  - destruct op;
      try (solve [ eapply int_infix_arith_in_range; [ exact Ha | exact Hb | | exact E ]; exact I ]);
      simpl in E; inversion E; subst.
    + apply land_in_int64; assumption.
    + apply lor_in_int64; assumption.
    + apply lxor_in_int64; assumption.
  - destruct op; simpl in E;
      try discriminate;
      try (match type of E with context [go_quo] => unfold go_quo in E | context [go_rem] => unfold go_rem in E
                              | context [go_shl] => unfold go_shl in E | context [go_shr_u] => unfold go_shr_u in E end;
           repeat match type of E with context [if ?c then _ else _] => destruct c end; simpl in E; discriminate).
    destruct (int_range_sound free a b lo hi Ha Hb E) as [-> [-> [Hle _]]].
    split; [ exact Ha | split; [ exact Hb | exact Hle ] ].
Qed.
