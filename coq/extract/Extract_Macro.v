(* Extraction of the macro model.  ExtrOcamlBasic only. *)
From Coq Require Import Extraction ExtrOcamlBasic.
From GrolModel Require Import Ast Modify Macro.
Extraction Language OCaml.
Extraction "macro_model.ml" define_and_expand env_in_fragment node_tok.
