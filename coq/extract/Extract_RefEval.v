(* Extraction of the reference evaluator (C01).  ExtrOcamlBasic only: nat, N, Z, positive stay Coq datatypes. *)
From Coq Require Import Extraction ExtrOcamlBasic.
From GrolModel Require Import Ast RefValues RefEval.
Extraction Language OCaml.
Extraction "refeval_model.ml" eval_program init_state bits_of_fl has_opaque node_tok printed.
