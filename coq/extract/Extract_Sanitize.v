(* Extraction of the restricted-IO model (C17).  ExtrOcamlBasic only: N, positive, nat stay Coq datatypes. *)
From Coq Require Import Extraction ExtrOcamlBasic.
From GrolModel Require Import Sanitize.
Extraction Language OCaml.
Extraction "sanitize_model.ml" mkConfig sanitize registered is_registered step run accepted_name
  fs_get fs_set fs_changes allowedb plainb grol_png dot_gr suffix.
