(* Extraction of the container machine and its pure specification.  ExtrOcamlBasic only: nat, Z, positive stay Coq datatypes. *)
From Coq Require Import Extraction ExtrOcamlBasic NArith.
From GrolModel Require Import Containers.
Extraction Language OCaml.
Extraction "containers_model.ml" repo_cfg pinned_cfg empty_state op_step p_op_step read prim_target op_writes lookup
  N.of_nat (* only so that the type n used by ocaml/helpers.ml exists *).
