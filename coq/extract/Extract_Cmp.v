(* Extraction of the Values / Cmp model (C12).  ExtrOcamlBasic only: nat, positive, N, Z, Q stay Coq datatypes. *)
From Coq Require Import Extraction ExtrOcamlBasic.
From GrolModel Require Import Values Cmp.
Extraction Language OCaml.
Extraction "cmp_model.ml" type_of cmp equals op_lt op_le op_gt op_ge op_eq op_ne vmin vmax cmp_int_float_go cmp_c.
