(* Extraction of the memoization model.  ExtrOcamlBasic only: nat, N, Z, positive stay Coq datatypes. *)
From Coq Require Import Extraction ExtrOcamlBasic.
From GrolModel Require Import Memo.
Extraction Language OCaml.
Extraction "memo_model.ml" init_state run eval inspect has_function closed_hist closed_fn closed_session.
