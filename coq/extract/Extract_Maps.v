(* Extraction of the Maps model instantiated by the driver with the key order cmp_c (C11).
   ExtrOcamlBasic only: nat, positive, N, Z, Q stay Coq datatypes. *)
From Coq Require Import Extraction ExtrOcamlBasic.
From GrolModel Require Import Values Cmp Maps.
Extraction Language OCaml.
Extraction "maps_model.ml" type_of cmp equals cmp_c
  elems is_big mnew mget mset mdelete mlen mfirst mrest mrange mappend mliteral minspect bnew.
