(* Extraction of the front-end models (lexer, parser, printer, round trip).  ExtrOcamlBasic only. *)
From Coq Require Import Extraction ExtrOcamlBasic.
From GrolGen Require Import Gen_Consts.
From GrolModel Require Import Ast Lexer Parser Printer AstWf Frontend TokPrint.
Extraction Language OCaml.
Extraction "front_model.ml" front_parse front_tokens roundtrip clean print_program quote_in_domain go_quote
  format idempotent_on node_tok program_nil_free program_printable token_STRING token_EOF token_EOL lex_all frag_tokens frag_prog_tokens.
