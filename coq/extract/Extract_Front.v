(* Extraction of the front-end models (parser, printer).  ExtrOcamlBasic only. *)
From Coq Require Import Extraction ExtrOcamlBasic.
From GrolModel Require Import Ast Parser Printer.
Extraction Language OCaml.
From GrolGen Require Import Gen_Consts.
Extraction "front_model.ml" parse_program default_fuel print_program quote_in_domain go_quote node_tok token_STRING token_EOF token_EOL.
