(* Extraction of the register / skeleton / session models (C05 and C10).  ExtrOcamlBasic only. *)
From Coq Require Import Extraction ExtrOcamlBasic.
From GrolGen Require Import Gen_Consts.
From GrolModel Require Import Ast Modify Registers Session.
Extraction Language OCaml.
Extraction "registers_model.ml"
  token_REGISTER modify_register count_occ setup_register_body bails wf_node
  eval repaired pinned eval_one run_session new_session top_outcome.
