(* Extraction of the Trie model.  ExtrOcamlBasic only: N, positive, nat stay Coq datatypes. *)
From Coq Require Import Extraction ExtrOcamlBasic.
From GrolModel Require Import Trie.
Extraction Language OCaml.
Extraction "trie_model.ml" new_trie insert contains prefix_all complete build.
