(* Extraction of the constant-environment model.  ExtrOcamlBasic only: nat, N, Z, positive stay Coq datatypes. *)
From Coq Require Import Extraction ExtrOcamlBasic NArith.
From GrolModel Require Import Containers ConstEnv.
Extraction Language OCaml.
Extraction "constenv_model.ml" repo_ccfg pinned_ccfg run_event root_value constant_name N.of_nat.
