(* Extraction of the auto-save step model (C18).  ExtrOcamlBasic only: nat, N, Z, positive, string stay Coq datatypes. *)
From Coq Require Import Extraction ExtrOcamlBasic.
From GrolGen Require Import Gen_AutoSave.
From GrolModel Require Import AutoSave.
Extraction Language OCaml.
Extraction "autosave_model.ml"
  autosave_skeleton autosave_state_file fs_get fs_set init torn_step run_steps after observe
  autosave_actions autosave_session session_after crash_possible crash_possible_fast fault_possible.
