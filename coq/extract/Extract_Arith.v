(* Extraction of the arithmetic model and the panic-site audit summary (C07).  ExtrOcamlBasic only. *)
From Coq Require Import Extraction ExtrOcamlBasic.
From GrolModel Require Import Arith PanicSites.
Extraction Language OCaml.
Extraction "arith_model.ml" iop_of_token int_infix index_range index_expr index_assign
  string_repeat array_repeat array_concat string_concat apply_ext_validate
  panic_sites_accounted count_class.
