(* Extraction of the save/load model (C14).  ExtrOcamlBasic only: nat, positive, N, Z, Q stay Coq datatypes. *)
From Coq Require Import Extraction ExtrOcamlBasic.
From GrolGen Require Import Gen_Consts.
From GrolModel Require Import Ast Lexer Parser Printer AstWf Frontend Values Cmp Maps SaveLoad.
Extraction Language OCaml.
Extraction "saveload_model.ml" save_globals save_one read_back_full read_back_dec read_back func_roundtrip func_text
  fl_of_bits bits_of_fl dec_conv inspect save_line in_domain no_finite_float good_name reads_back fmt_float fmt_int
  front_parse front_tokens clean node_tok token_INT token_FLOAT plain_decimal.
