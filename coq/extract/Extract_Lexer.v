(* Extraction of the Lexer model.  ExtrOcamlBasic only: N, Z, positive, nat stay Coq datatypes. *)
From Coq Require Import Extraction ExtrOcamlBasic.
From GrolModel Require Import Lexer.
Extraction Language OCaml.
Extraction "lexer_model.ml" next_token lex_all is_end intern_all i_init i_empty.
