(* Extraction of the session model (C10).  ExtrOcamlBasic only. *)
From Coq Require Import Extraction ExtrOcamlBasic.
From GrolModel Require Import Registers Session.
Extraction Language OCaml.
Extraction "session_model.ml" eval repaired pinned eval_one run_session new_session top_outcome.
