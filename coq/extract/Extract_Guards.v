(* Extraction of the guard machine and the depth accounting of program shapes (C09).  ExtrOcamlBasic only. *)
From Coq Require Import Extraction ExtrOcamlBasic.
From GrolModel Require Import Guards Arith.
Extraction Language OCaml.
Extraction "guards_model.ml" program guard_fires need array_repeat string_repeat string_concat array_concat int_infix.
